"""Run the registered quick checks against the seeded defects kept under /verif/seeded/<name>/ (patch.diff written by
independent sub-agents). Each patch is applied to a scratch worktree OUTSIDE /repo and /verif; the check of the
property named in meta.json must exit 1. Development-time tool; never part of a registered check.

  /venv/bin/python selftest/seeded.py [/tmp/wt_verify] [name-filter ...] [--tier quick|thorough] [--full]
"""
import json
import os
import subprocess
import sys

VERIF = os.path.dirname(os.path.dirname(os.path.abspath(__file__)))


def main():
    args = sys.argv[1:]
    tier = "quick"
    if "--tier" in args:
        i = args.index("--tier")
        tier = args[i + 1]
        del args[i:i + 2]
    wt = next((a for a in args if a.startswith("/")), "/tmp/wt_verify")
    flt = [a for a in args if not a.startswith("/") and not a.startswith("--")]
    env = dict(os.environ, VERIF_REPO=wt, VERIF_EVIDENCE_DIR="/tmp/seeded_evidence", VERIF_REPLAY_DIR="/tmp/seeded_replays", VERIF_SCREEN="1")
    full = "--full" in sys.argv  # the check exactly as registered: minimisation, replay files, fresh-interpreter replays
    if full:
        env.pop("VERIF_SCREEN")
    out = {}
    for name in sorted(os.listdir(os.path.join(VERIF, "seeded"))):
        d = os.path.join(VERIF, "seeded", name)
        if not os.path.isdir(d) or (flt and not any(f in name for f in flt)):
            continue
        meta = json.load(open(os.path.join(d, "meta.json")))
        pid = meta["property"]
        ob = os.path.join(d, "decided_by")
        if os.path.exists(ob):  # the clause the change breaks is decided by another property's check (see result.json)
            pid = open(ob).read().strip()
        subprocess.run(["git", "-C", wt, "checkout", "-q", "--", "."], check=True)
        r = subprocess.run(["git", "-C", wt, "apply", os.path.join(d, "patch.diff")], capture_output=True, text=True)
        if r.returncode != 0:
            print(name, "PATCH-DOES-NOT-APPLY", r.stderr[:200])
            continue
        import time as _t

        t0 = _t.time()
        r = subprocess.run([sys.executable, os.path.join(VERIF, "run.py"), "check", pid, "--tier", tier],
                           capture_output=True, text=True, env=env, timeout=4000)
        took = _t.time() - t0
        sigs = [l.split("signature: ")[1][:170] for l in r.stdout.splitlines() if "signature: " in l]
        status = {1: "CAUGHT", 0: "MISSED", 2: "HARNESS-ERROR"}.get(r.returncode, f"rc={r.returncode}")
        out[name] = {"property": pid, "status": status, "signatures": sigs[:3]}
        herr = [l[:200] for l in r.stdout.splitlines() if l.startswith("HARNESS-ERROR")]
        print(name, pid, status, f"{took:.0f}s", f"violation_lines={sum(1 for l in r.stdout.splitlines() if l.startswith('VIOLATION'))}",
              sigs[:1], herr[:2], flush=True)
        if r.returncode == 2:
            print(r.stdout[-500:])
    subprocess.run(["git", "-C", wt, "checkout", "-q", "--", "."], check=True)
    json.dump(out, open("/tmp/seeded_result.json", "w"), indent=1)


if __name__ == "__main__":
    main()
