"""Sensitivity self-test (development time): hand-written mutants applied to a scratch worktree of /repo OUTSIDE
/repo and /verif; each must make the named check exit 1 within its quick budget. Never run by the registered checks.

  /venv/bin/python selftest/mutants.py [/tmp/wt_self] [name-filter]
"""
import json
import os
import subprocess
import sys

VERIF = os.path.dirname(os.path.dirname(os.path.abspath(__file__)))

# (name, property, file, old, new)
M = [
 # only visible under the pool.task_failed fault: the engine no longer notices a task that died in its worker
 ("c07_worker_failure_swallowed", "C07", "rpylib/montecarlo/standard/engine.py",
  "                    simulating_one_path, tqdm(range(mc_paths)), callback=callback\n                ).get()",
  "                    simulating_one_path, tqdm(range(mc_paths)), callback=callback\n                ).wait()"),
 ("c05_worker_failure_swallowed", "C05", "rpylib/montecarlo/multilevel/engine.py",
  "                    callback=callback,\n                ).get()", "                    callback=callback,\n                ).wait()"),
 ("c08_peek_not_pop", "C08", "rpylib/process/levyprocess.py",
  "stddev, self._brownian_increments.popleft()", "stddev, self._brownian_increments[0]"),
 ("c08_seed_inside_loop", "C08", "rpylib/montecarlo/standard/engine.py",
  "            for iteration in range(mc_paths):\n                simulated_path = simulate_one_path()",
  "            for iteration in range(mc_paths):\n                self.configuration.initialisation_seed()\n                simulated_path = simulate_one_path()"),
 ("c08_drop_random_seed", "C08", "rpylib/montecarlo/configuration.py",
  "            np.random.default_rng(self.seed)\n            random.seed(self.seed)", "            np.random.default_rng(self.seed)"),
 ("c08_worker_no_predraw", "C08", "rpylib/montecarlo/standard/engine.py",
  "                process.pre_computation(1, product)\n", ""),
 ("c08_reseed_per_level", "C08", "rpylib/montecarlo/multilevel/engine.py",
  "            # single process version\n            for iteration in range(extra_mc_paths):",
  "            # single process version\n            self.configuration.initialisation_seed()\n            for iteration in range(extra_mc_paths):"),
 ("c08_pid_time_seed", "C08", "rpylib/montecarlo/configuration.py",
  'not_deterministic_seed = int.from_bytes(os.urandom(4), "little")',
  "import time as _t\n            not_deterministic_seed = (os.getpid() * int(_t.time())) % 123456789"),
 ("c07_callback_drops_last", "C07", "rpylib/montecarlo/standard/engine.py",
  "                for it, mp_simulated_path in res:", "                for it, mp_simulated_path in res[:-1]:"),
 ("c07_ddof0", "C07", "rpylib/montecarlo/statistic/tools.py", "simulations, axis=0, ddof=1", "simulations, axis=0, ddof=0"),
 ("c07_bstar_sign", "C07", "rpylib/product/product.py",
  "cv_stats = y - np.dot(b_star, (x - prices).T)", "cv_stats = y + np.dot(b_star, (x - prices).T)"),
 ("c07_mean_skips_last", "C07", "rpylib/montecarlo/statistic/tools.py",
  "    return np.mean(simulations, axis=0)", "    return np.mean(simulations[:-1], axis=0) if simulations.shape[0] > 64 else np.mean(simulations, axis=0)"),
 ("c05_add_without_offset", "C05", "rpylib/montecarlo/multilevel/engine.py",
  "statistics.add(current_mc_paths + iteration, level, path_manager)", "statistics.add(iteration, level, path_manager)"),
 ("c05_extend_pads_one_more", "C05", "rpylib/montecarlo/statistic/statistic.py",
  "            delta = mc_path - self.stats.shape[0]", "            delta = mc_path - self.stats.shape[0] + 1"),
 ("c05_placeholder_back", "C05", "rpylib/montecarlo/multilevel/engine.py",
  "                Nl = np.append(Nl, 0)", "                Nl = np.append(Nl, 1)"),
 ("c05_swap_fp_cp", "C05", "rpylib/montecarlo/statistic/statistic.py",
  "    FP = 0  # fine process position\n    CP = 1", "    FP = 1  # fine process position\n    CP = 0"),
 ("c06_theta_alloc_smaller", "C06", "rpylib/montecarlo/multilevel/criteria.py", "    theta = THETA\n", "    theta = 0.1\n"),
 ("c06_never_max_level", "C06", "rpylib/montecarlo/multilevel/engine.py",
  "if has_converged or L == level_max:", "if has_converged or L == level_max + 1:"),
 ("c06_drop_1pct_rule", "C06", "rpylib/montecarlo/multilevel/engine.py",
  "if np.sum(dNl[dNl > 0.01 * Nl]) == 0:", "if np.sum(dNl[dNl > 0.5 * Nl]) == 0:"),
 ("c06_nl_minus_one", "C06", "rpylib/montecarlo/multilevel/engine.py",
  "                Nl[level] += dNl[level]\n", "                Nl[level] += max(dNl[level] - 1, 0)\n"),
 ("c15_no_sort", "C15", "rpylib/process/levyprocess.py", "        return np.sort(res)", "        return res"),
 ("c15_no_cumsum_diffusion", "C15", "rpylib/process/levyprocess.py",
  "    diffs = scaled_stddev * brownian_increments\n    return np.cumsum(diffs)", "    diffs = scaled_stddev * brownian_increments\n    return diffs"),
 ("c15_per_interval_back", "C15", "rpylib/process/markovchain/markovchain.py",
  "        return np.cumsum(definitive_values)", "        return definitive_values"),
 ("c15_insert_wrong_value", "C15", "rpylib/process/levyprocess.py",
  "np.where(positions == 0, 0, aug_jump_values[..., positions - 1]),", "np.where(positions == 0, 0, aug_jump_values[..., positions]),"),
 ("c17_barrier_no_reset", "C17", "rpylib/product/payoff.py",
  "    def __barrier_event_up(self, _, path):\n        self.barrier_event = False  # the barrier event is a property of this path only",
  "    def __barrier_event_up(self, _, path):"),
 ("c17_sticky_log", "C17", "rpylib/product/underlying.py",
  '            self.__dict__.pop("value", None)', "            pass"),
 ("c17_mlmc_order", "C17", "rpylib/montecarlo/path.py",
  "        payoff_from_fp = product(payoff_underlying_from_fp)\n        payoff_underlying_from_cp = product.underlying_value(\n            times, path_coarse, jump_path_coarse\n        )\n        payoff_from_cp",
  "        payoff_underlying_from_cp = product.underlying_value(\n            times, path_coarse, jump_path_coarse\n        )\n        payoff_from_fp = product(payoff_underlying_from_fp)\n        payoff_from_cp"),
 ("c02_inversion_lt", "C02", "rpylib/distribution/pairing.py",
  "        while xx <= self.max_frontier_indices:", "        while xx < self.max_frontier_indices:"),
 ("c02_bst_adapted_ge", "C02", "rpylib/distribution/variate/binarysearchtreeadapted.py",
  "        if u > self._proba_left_axis:", "        if u > self._proba_left_axis * 0.98:"),
 ("c02_uniform_cached", "C02", "rpylib/distribution/variate/inversion.py",
  "            x = bisect_left(cum_probabilities, u)", "            x = min(bisect_left(cum_probabilities, u) + (len(cum_probabilities) > 12), len(cum_probabilities) - 1)"),
 ("c03_prob_uses_left", "C03", "rpylib/process/coupling/couplingmarkovchain.py",
  "        probability = val_right / (val_left + val_right)", "        probability = val_left / (val_left + val_right)"),
 ("c03_even_projected", "C03", "rpylib/process/coupling/couplingmarkovchain.py",
  "        if not increment % 2:", "        if not increment % 2 and abs(increment) < 6:"),
 ("c03_coarse_sigma_fine", "C03", "rpylib/process/coupling/couplingmarkovchain.py",
  "        self.equivalent_diffusion_coefficient_coarse = copy.copy(\n            self.equivalent_diffusion_coefficient_fine\n        )\n        self.fine_process = MarkovChainProcess(",
  "        self.fine_process = MarkovChainProcess("),
 ("c03_coarse_drift_not_frozen", "C03", "rpylib/process/coupling/couplingmarkovchain.py",
  "                        fine_deterministic_path(times_input),\n                        coarse_deterministic_path(times_input),",
  "                        fine_deterministic_path(times_input),\n                        fine_deterministic_path(times_input),"),
 ("c03nd_corner_order", "C03", "rpylib/process/coupling/couplinglevycopula.py",
  "            for p in product([-1, 1], repeat=len(axis_coordinates)):", "            for p in product([1, -1], repeat=len(axis_coordinates)):"),
 ("c03nd_coarse_matrix_not_frozen", "C03", "rpylib/process/coupling/couplinglevycopula.py",
  "        self._diffusion_matrix_2h = self.fine_process._path_simulation.diffusion_matrix\n", ""),
 ("c15nd_final_jump_zero", "C15", "rpylib/process/markovchain/markovchainlevycopula.py",
  "            else np.array([jp[-1] for jp in jump_values])", "            else np.array([jp[0] for jp in jump_values])"),
 ("c15nd_coupled_times_misaligned", "C15", "rpylib/process/coupling/helper.py",
  "                aug_coarse_js = np.insert(\n                    aug_coarse_js,\n                    positions,\n                    np.where(positions == 0, 0, aug_coarse_js[..., positions - 1]),",
  "                aug_coarse_js = np.insert(\n                    aug_coarse_js,\n                    positions,\n                    np.where(positions == 0, 0, aug_coarse_js[..., positions]),"),
 ("c02nd_bucket_offset", "C02", "rpylib/distribution/variate/binarysearchtreeadapted.py",
  "        positions = np.where(bucket_positions > 0)", "        positions = np.where(bucket_positions > 1)"),
 ("c17_ntd_shared_buffer", "C17", "rpylib/product/underlying.py",
  "        default_times = copy.copy(self._default_times_inf)", "        default_times = self._default_times_inf"),
 ("c08_copula_peek", "C08", "rpylib/process/markovchain/markovchainlevycopula.py",
  "        brownian_increments = self._brownian_increments.popleft()", "        brownian_increments = self._brownian_increments[0]"),
 ("c16_libor_drift_sign", "C16", "rpylib/process/markovchain/markovchainsde.py",
  "            drift_dt = (sde_drift_val + d_mu) * dt\n            zi += drift_dt + d_jump + d_diffusion\n            z_drift[:, i]",
  "            drift_dt = (d_mu - sde_drift_val) * dt\n            zi += drift_dt + d_jump + d_diffusion\n            z_drift[:, i]"),
 ("c07_discount_controls_twice", "C07", "rpylib/montecarlo/path.py",
  "        self.payoff_control_variates *= df\n", "        self.payoff_control_variates *= df * df\n"),
 ("c05_kurtosis_irrelevant_cl_wrong", "C05", "rpylib/montecarlo/statistic/statistic.py",
  "        val = self._sum_cost / self.Nl\n", "        val = self._sum_cost / np.maximum(self.Nl - 1, 1)\n"),
 ("c16_euler_next_state", "C16", "rpylib/process/markovchain/markovchainsde.py",
  "            zi += drift_dt + d_jump + d_diffusion\n            z_drift[:, i]", "            zi += drift_dt + d_jump + 0.5 * d_diffusion\n            z_drift[:, i]"),
 ("c16_coarse_uses_fine_drift", "C16", "rpylib/process/coupling/couplingsde.py",
  "(np.atleast_2d(self.mc_drift_h), np.atleast_2d(self.mc_drift_2h))", "(np.atleast_2d(self.mc_drift_h), np.atleast_2d(self.mc_drift_h))"),
]


def main():
    wt = sys.argv[1] if len(sys.argv) > 1 and sys.argv[1].startswith("/") else "/tmp/wt_self"
    flt = [a for a in sys.argv[1:] if not a.startswith("/")]
    env = dict(os.environ, VERIF_REPO=wt, VERIF_EVIDENCE_DIR="/tmp/mut_evidence", VERIF_REPLAY_DIR="/tmp/mut_replays", VERIF_NO_MINIMISE="1", VERIF_SCREEN="1")
    results = []
    for name, pid, f, old, new in M:
        if flt and not any(x in name for x in flt):
            continue
        subprocess.run(["git", "-C", wt, "checkout", "-q", "--", "."], check=True)
        path = os.path.join(wt, f)
        src = open(path).read()
        if old not in src:
            results.append((name, pid, "PATTERN-NOT-FOUND"))
            print(name, pid, "PATTERN-NOT-FOUND", flush=True)
            continue
        open(path, "w").write(src.replace(old, new, 1))
        r = subprocess.run([sys.executable, os.path.join(VERIF, "run.py"), "check", pid, "--tier", "quick"],
                           capture_output=True, text=True, env=env, timeout=1500)
        sigs = [l.split("signature: ")[1][:150] for l in r.stdout.splitlines() if "signature: " in l]
        status = {1: "CAUGHT", 0: "MISSED", 2: "HARNESS-ERROR"}.get(r.returncode, f"rc={r.returncode}")
        results.append((name, pid, status, sigs[:2]))
        print(name, pid, status, sigs[:1], flush=True)
        if r.returncode not in (0, 1):
            print(r.stdout[-600:], r.stderr[-300:])
    subprocess.run(["git", "-C", wt, "checkout", "-q", "--", "."], check=True)
    json.dump(results, open("/tmp/mutants_result.json", "w"), indent=1)
    print("caught", sum(1 for r in results if r[2] == "CAUGHT"), "of", len(results))


if __name__ == "__main__":
    main()
