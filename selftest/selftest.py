"""Self-tests of the harness (never decide a property; failures are HARNESS errors, exit 2).

1. determinism: every built property's worlds give the same outcome digest
     - in two fresh interpreters with different PYTHONHASHSEED,
     - whatever the order in which one OS process runs them (forward / reverse), i.e. no state leaks from one world
       to the next inside a worker of the check's process pool.
2. pool fidelity: SimPool against the REAL pathos pool (real processes, used only to calibrate) on
   schedule-independent observables: chunk structure + per-task re-pickling of the closure, fork inheritance of the
   parent's generator state, initializer-once-per-worker.
"""
import os
import subprocess
import sys

VERIF = os.path.dirname(os.path.dirname(os.path.abspath(__file__)))


def built_props():
    from simkit import harness
    import importlib

    out = []
    for pid, modname in sorted(harness.PROPS.items()):
        try:
            importlib.import_module(modname)
            out.append(pid)
        except ModuleNotFoundError:
            pass
    return out


def _digests(pid, first, count, hashseed, order):
    env = dict(os.environ, PYTHONHASHSEED=str(hashseed))
    cmd = [sys.executable, os.path.join(VERIF, "run.py"), "digest", pid, str(first), str(count), "--order", order]
    r = subprocess.run(cmd, capture_output=True, text=True, timeout=1500, env=env, cwd=VERIF)
    if r.returncode != 0:
        raise RuntimeError(f"digest run failed for {pid}: {r.stderr[-800:]}")
    d = {}
    for ln in r.stdout.splitlines():
        i, dg, st = ln.split()
        d[int(i)] = (dg, st)
    return d


def determinism(count):
    import concurrent.futures as cf

    bad = []
    props = built_props()
    jobs = {}
    with cf.ThreadPoolExecutor(max_workers=12) as ex:
        for pid in props:
            jobs[(pid, "a")] = ex.submit(_digests, pid, 0, count, 0, "forward")
            jobs[(pid, "b")] = ex.submit(_digests, pid, 0, count, 987654321, "reverse")
        for pid in props:
            a, b = jobs[(pid, "a")].result(), jobs[(pid, "b")].result()
            diff = [i for i in a if a[i] != b.get(i)]
            he = [i for i in a if a[i][1] != "ok"]
            print(f"  determinism {pid}: {len(a)} worlds x 2 interpreters (hash seeds 0 / 987654321, forward / reverse "
                  f"order): {len(diff)} digest differences, {len(he)} harness errors")
            if diff:
                bad.append(f"{pid}: digests differ for world indices {diff[:10]}")
            if he:
                bad.append(f"{pid}: harness errors in world indices {he[:10]}")
    return bad


# ---- pool fidelity ------------------------------------------------------------------------------
def _fidelity_workloads():
    """functions whose results are schedule independent"""
    state = {"k": 0}

    def counter(it):
        # the closure is re-pickled per task: the counter restarts at every chunk
        state["k"] += 1
        return state["k"]

    return counter


def pool_fidelity():
    from simkit import rngseam, world
    import numpy as np
    import pathos.multiprocessing as pmp

    rngseam.install()
    bad = []
    for (W, n) in [(4, 40), (4, 1000), (3, 7), (2, 1), (5, 16)]:
        f = _fidelity_workloads()
        with pmp.Pool(processes=W) as pool:  # no active world -> the REAL pool
            real = pool.map_async(f, range(n)).get()
        wd = world.World({"world_seed": 1})
        from simkit import instrument
        instrument.prepare_world(wd)
        rngseam.activate(wd)
        try:
            f2 = _fidelity_workloads()
            with pmp.Pool(processes=W) as pool:
                sim = pool.map_async(f2, range(n)).get()
        finally:
            rngseam.deactivate()
        if real != sim:
            bad.append(f"chunk structure differs for W={W} n={n}: real {real[:12]}.. sim {sim[:12]}..")
    # fork inheritance: un-reseeded workers replay the parent's stream
    def draw(it):
        return float(np.random.random())

    np.random.seed(12345)
    expected = np.random.RandomState(12345).random_sample(64).tolist()
    with pmp.Pool(processes=4) as pool:
        real = pool.map_async(draw, range(16)).get()
    if not (set(real) <= set(expected) and expected[0] in real):
        bad.append("real pool: workers do not replay the parent's stream?! (fork inheritance assumption broken)")
    wd = world.World({"world_seed": 2})
    from simkit import instrument
    instrument.prepare_world(wd)
    rngseam.activate(wd)
    try:
        np.random.seed(12345)
        with pmp.Pool(processes=4) as pool:
            sim = pool.map_async(draw, range(16)).get()
    finally:
        rngseam.deactivate()
    if not (set(sim) <= set(expected) and expected[0] in sim):
        bad.append("SimPool: workers do not start from the parent's generator state")
    # initializer: once per worker, before its first task
    def init():
        np.random.seed(os.getpid() % 1000 + 5)

    def draw2(it):
        return float(np.random.random()), os.getpid()

    with pmp.Pool(processes=3, initializer=init) as pool:
        real = pool.map_async(draw2, range(24)).get()
    for pid in {p for _, p in real}:
        vals = [v for v, p in real if p == pid]
        exp = np.random.RandomState(pid % 1000 + 5).random_sample(len(vals)).tolist()
        if vals != exp:
            bad.append("real pool: initializer-once-per-worker assumption broken")
    print(f"  pool fidelity: real pathos pool vs SimPool on 5 chunk structures, fork inheritance, initializer: "
          f"{'agree' if not bad else 'DISAGREE'}")
    return bad


def main(fast=False):
    sys.path.insert(0, VERIF)
    from simkit.bootstrap import bootstrap

    bootstrap()
    print("selftest: stubs injected:", bootstrap.stubs, "| properties built:", built_props())
    bad = []
    bad += pool_fidelity()
    bad += determinism(12 if fast else 200)
    for b in bad:
        print("HARNESS-ERROR selftest", b)
    print("selftest:", "FAILED" if bad else "ok")
    return 2 if bad else 0
