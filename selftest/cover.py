"""Development aid: line coverage of /repo/rpylib under the quick tier of every check (or the ones named).

  /venv/bin/python selftest/cover.py [C02 C03 ...] [--worlds N]

Prints, per rpylib file, the function lines no world executed - the places where a change cannot be seen by any check.
Nothing here is a check; it steers where scenario families need widening (DESIGN section 17.3).
"""
import json
import os
import shutil
import subprocess
import sys
import tempfile

VERIF = os.path.dirname(os.path.dirname(os.path.abspath(__file__)))
REPO = os.path.realpath(os.environ.get("VERIF_REPO", "/repo"))
ALL = ["C02", "C03", "C05", "C06", "C07", "C08", "C15", "C16", "C17"]


def function_lines(path):
    src = open(path).read()
    top = compile(src, path, "exec")
    lines = {}

    def walk(code, qual):
        for c in code.co_consts:
            if hasattr(c, "co_code"):
                q = (qual + "." if qual else "") + c.co_name
                if c.co_flags & 0x1:  # CO_OPTIMIZED: a function body, not a class body
                    first = c.co_firstlineno
                    for _, _, ln in c.co_lines():
                        if ln is not None and ln != first:
                            lines.setdefault(ln, q)
                walk(c, q)

    walk(top, "")
    # drop docstring-only / pass lines is not attempted: co_lines only lists lines that carry bytecode
    return lines


def main():
    args = [a for a in sys.argv[1:] if not a.startswith("--")]
    worlds = None
    if "--worlds" in sys.argv:
        worlds = sys.argv[sys.argv.index("--worlds") + 1]
        args = [a for a in args if a != worlds]
    props = args or ALL
    tmp = tempfile.mkdtemp(prefix="verif_cover_")
    ev = tempfile.mkdtemp(prefix="verif_cover_ev_")
    per_prop = {}
    try:
        for p in props:
            d = os.path.join(tmp, p)
            env = dict(os.environ, VERIF_COVER=d, VERIF_EVIDENCE_DIR=ev, VERIF_REPLAY_DIR=ev, VERIF_SCREEN="1")
            cmd = [sys.executable, os.path.join(VERIF, "run.py"), "check", p, "--tier", "quick"]
            if worlds:
                cmd += ["--worlds", worlds]
            r = subprocess.run(cmd, env=env, capture_output=True, text=True, timeout=3000)
            print(p, (r.stdout.strip().splitlines() or ["?"])[-1][:150], file=sys.stderr)
            hits = set()
            if os.path.isdir(d):
                for fn in os.listdir(d):
                    hits.update(tuple(x) for x in json.load(open(os.path.join(d, fn))))
            per_prop[p] = hits
    finally:
        shutil.rmtree(tmp, ignore_errors=True)
        shutil.rmtree(ev, ignore_errors=True)
    allhits = set().union(*per_prop.values())
    root = os.path.join(REPO, "rpylib")
    report = {}
    tot = cov = 0
    for dp, _, fns in os.walk(root):
        for fn in sorted(fns):
            if not fn.endswith(".py"):
                continue
            full = os.path.join(dp, fn)
            rel = os.path.relpath(full, root)
            fl = function_lines(full)
            if not fl:
                continue
            miss = sorted(ln for ln in fl if (rel, ln) not in allhits)
            tot += len(fl)
            cov += len(fl) - len(miss)
            report[rel] = {"function_lines": len(fl), "missed": miss,
                           "missed_in": sorted({fl[ln] for ln in miss}),
                           "hit_by": sorted(p for p in per_prop if any(f == rel for f, _ in per_prop[p]))}
    out = os.path.join(VERIF, "selftest", "cover_report.json")
    json.dump({"props": props, "function_lines": tot, "covered": cov, "files": report}, open(out, "w"), indent=1)
    print(f"covered {cov}/{tot} function lines of rpylib ({100.0 * cov / max(tot, 1):.1f}%)")
    for rel in sorted(report, key=lambda r: -len(report[r]["missed"])):
        r = report[rel]
        if r["missed"]:
            print(f"{rel}: {len(r['missed'])}/{r['function_lines']} missed; in {', '.join(r['missed_in'][:12])}")


if __name__ == "__main__":
    main()
