"""Observation points wrapped from OUTSIDE the repo (class attributes rebound once per OS process).

Nothing here changes what the wrapped code computes; every wrapper calls the original and then records into the
active world's ledgers. With no active world the wrappers are transparent.

  * sample ledger:   ``MCPath.set_to_path`` - every path handed to an engine's path manager
  * control ledger:  multilevel ``Engine.compute_level_l``, ``MLMCStatistics.set_mlmc_results/extend``,
                     ``Statistic.add``
  * pre-drawn rows:  ``SimulationFixedTimes.pre_computation`` - the two deques of pre-drawn variates are replaced by
                     ``LedgerDeque`` (a deque subclass whose rows carry world-unique serials and that reports every
                     pop / peek). It survives deepcopy and the per-task dill round trip, and - the simulated workers
                     living in this very OS process - reports to the same world whichever copy is consumed.
"""
from collections import deque

import numpy as np

from . import rngseam
from .world import check_request

_installed = False


def _wd():
    return rngseam.ACTIVE


class LedgerDeque(deque):
    """deque of pre-drawn variate rows; each row has a serial kept in a parallel deque"""

    def _report(self, how, serial):
        wd = _wd()
        if wd is not None:
            wd.consumed.append((self.kind, serial, how, wd.current.name, getattr(wd, "chunk", None), wd.level,
                                wd.run_index))

    def popleft(self):
        row = deque.popleft(self)
        self._report("popleft", self.serials.popleft())
        return row

    def pop(self):
        row = deque.pop(self)
        self._report("pop", self.serials.pop())
        return row

    def __getitem__(self, i):
        row = deque.__getitem__(self, i)
        self._report("peek", self.serials[i])
        return row

    def __reduce__(self):
        return (_rebuild_ledger_deque, (list(deque.__iter__(self)), self.kind, list(self.serials)))

    def __deepcopy__(self, memo):
        import copy

        return _rebuild_ledger_deque(copy.deepcopy(list(deque.__iter__(self)), memo), self.kind, list(self.serials))

    def __copy__(self):
        return _rebuild_ledger_deque(list(deque.__iter__(self)), self.kind, list(self.serials))


def _rebuild_ledger_deque(rows, kind, serials):
    d = LedgerDeque(rows)
    d.kind = kind
    d.serials = deque(serials)
    return d


def _tag(dq, kind):
    wd = _wd()
    if wd is None or isinstance(dq, LedgerDeque) or not isinstance(dq, deque):
        return dq
    n = len(dq)
    first = wd.next_row_serial
    wd.next_row_serial += n
    out = _rebuild_ledger_deque(list(dq), kind, list(range(first, first + n)))
    wd.row_batches.append((kind, first, n, wd.current.name, wd.level, wd.run_index))
    wd.log("predraw", kind, first, n, wd.current.name)
    return out


def install():
    global _installed
    if _installed:
        return
    import rpylib.montecarlo.path as path_mod
    import rpylib.montecarlo.multilevel.engine as ml_engine
    import rpylib.montecarlo.standard.engine as std_engine
    import rpylib.montecarlo.statistic.statistic as stat_mod
    import rpylib.process.levyprocess as levyprocess

    # ---- sample ledger -------------------------------------------------------------------------
    orig_set = path_mod.MCPath.set_to_path

    def set_to_path(self, stochastic_path):
        wd = _wd()
        if wd is not None:
            try:
                rec = {
                    "serial": len(wd.samples),
                    "run": wd.run_index,
                    "level": wd.level,
                    "ctx": wd.current.name,
                    "times": np.array(stochastic_path.times(), dtype=float, copy=True),
                    "diff": np.array(stochastic_path.diffusion_path, dtype=float, copy=True),
                    "jump": np.array(stochastic_path.jump_path, dtype=float, copy=True),
                    "tag": getattr(stochastic_path, "verif_tag", None),
                }
                dr = getattr(stochastic_path, "drift", None)
                if dr is not None:
                    rec["drift"] = np.array(dr, dtype=float, copy=True)
                if getattr(wd, "check_path_reads", False):
                    # a returned path is read twice before the engine reads it: value() must be a pure read, and the
                    # parts recorded above must add up to it
                    v1 = np.array(stochastic_path.value(), dtype=float, copy=True)
                    v2 = np.array(stochastic_path.value(), dtype=float, copy=True)
                    parts = rec["diff"] + rec["jump"] + (rec["drift"] if dr is not None else 0.0)
                    shipped = {}
                    try:
                        import copy as _copy

                        from . import simpool as _sp

                        for how, make in (("pool-pickler", lambda: _sp._loads(_sp._dumps(stochastic_path))),
                                          ("deepcopy", lambda: _copy.deepcopy(stochastic_path))):
                            q = make()
                            vq = np.array(q.value(), dtype=float)
                            shipped[how] = bool(type(q) is type(stochastic_path) and vq.shape == v1.shape and np.array_equal(vq, v1))
                    except Exception as e:
                        shipped["error"] = type(e).__name__
                    rec["shipped"] = shipped
                    rec["reads"] = {"same": bool(v1.shape == v2.shape and np.array_equal(v1, v2)),
                                    "adds_up": bool(v1.shape == np.shape(parts) and
                                                    np.allclose(v1, parts, rtol=1e-12, atol=1e-12 * (1.0 + np.max(np.abs(parts), initial=0.0))))}
            except Exception as e:  # a path object of unknown shape: keep the object itself
                rec = {"serial": len(wd.samples), "run": wd.run_index, "level": wd.level, "ctx": wd.current.name,
                       "obj": stochastic_path, "err": repr(e)}
            wd.samples.append(rec)
        return orig_set(self, stochastic_path)

    path_mod.MCPath.set_to_path = set_to_path

    # ---- control ledger ------------------------------------------------------------------------
    orig_cl = ml_engine.Engine.compute_level_l

    def compute_level_l(self, level, current_mc_paths, extra_mc_paths, *a, **k):
        wd = _wd()
        if wd is None:
            return orig_cl(self, level, current_mc_paths, extra_mc_paths, *a, **k)
        check_request(extra_mc_paths, f"level {int(level)} pass")
        prev = wd.level
        wd.level = int(level)
        wd.control.append(("level.start", int(level), int(current_mc_paths), int(extra_mc_paths), len(wd.samples)))
        wd.log("level.start", int(level), int(current_mc_paths), int(extra_mc_paths))
        try:
            return orig_cl(self, level, current_mc_paths, extra_mc_paths, *a, **k)
        finally:
            wd.control.append(("level.end", int(level), len(wd.samples)))
            wd.level = prev

    ml_engine.Engine.compute_level_l = compute_level_l

    orig_smr = stat_mod.MLMCStatistics.set_mlmc_results

    def set_mlmc_results(self, Nl, sum_cost):
        wd = _wd()
        r = orig_smr(self, Nl, sum_cost)
        if wd is not None:
            wd.control.append(("set_results", [int(x) for x in np.asarray(Nl).tolist()],
                               [float(x) for x in np.asarray(sum_cost).tolist()]))
            hook = getattr(wd, "on_set_results", None)
            if hook is not None:
                hook(self, Nl, sum_cost)
        return r

    stat_mod.MLMCStatistics.set_mlmc_results = set_mlmc_results

    orig_ext = stat_mod.MLMCStatistics.extend

    def extend(self, mc_paths):
        wd = _wd()
        if wd is not None:
            check_request(np.max(np.asarray(mc_paths)) if np.size(mc_paths) else 0, "statistics.extend")
            wd.control.append(("extend", [int(x) for x in np.asarray(mc_paths).tolist()]))
        return orig_ext(self, mc_paths)

    stat_mod.MLMCStatistics.extend = extend

    # ---- pre-drawn rows ------------------------------------------------------------------------
    orig_pc = levyprocess.SimulationFixedTimes.pre_computation

    def pre_computation(self, mc_paths, product):
        if _wd() is not None:
            check_request(mc_paths, "pre_computation")
        r = orig_pc(self, mc_paths, product)
        wd = _wd()
        if wd is not None:
            try:
                self._brownian_increments = _tag(self._brownian_increments, "bm")
                self._poisson_rv = _tag(self._poisson_rv, "poisson")
            except AttributeError:
                wd.probes["instrument.predraw_attrs_missing"] += 1
        return r

    levyprocess.SimulationFixedTimes.pre_computation = pre_computation

    # ---- uniforms as HANDED OUT by the library's own variate helper (a cache inside the helper would be invisible at
    # the generator seam): values recorded only when the world asks for it
    import rpylib.distribution.univariate.uniform as uni

    orig_us = uni.Uniform.sample

    def uniform_sample(self, size=1):
        out = orig_us(self, size)
        wd = _wd()
        if wd is not None and getattr(wd, "track_uniforms", False):
            arr = np.asarray(out, dtype=float).ravel()
            wd.uniform_log.append((wd.run_index, wd.level, wd.current.name, id(self), arr.copy()))
        return out

    uni.Uniform.sample = uniform_sample
    _installed = True


def prepare_world(wd):
    wd.consumed = []
    wd.next_row_serial = 0
    wd.row_batches = []
    wd.chunk = None
    wd.track_uniforms = False
    wd.uniform_log = []
