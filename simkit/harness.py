"""Running one world, batches of worlds in parallel, minimisation, replay files, evidence.

Exit codes of a check: 0 property held on everything explored (known findings printed), 1 violation not listed in
known_findings.json (``VIOLATION property=<id> replay=<path>``), 2 harness error (``HARNESS-ERROR ...``).
"""
import concurrent.futures as cf
import faulthandler
import hashlib
import importlib
import json
import multiprocessing
import os
import subprocess
import sys
import time
import traceback
from collections import Counter

VERIF = os.path.dirname(os.path.dirname(os.path.abspath(__file__)))
_real_time = time.time

PROPS = {
    "C02": "scenarios.c02", "C03": "scenarios.c03", "C05": "scenarios.c05", "C06": "scenarios.c06",
    "C07": "scenarios.c07", "C08": "scenarios.c08", "C15": "scenarios.c15", "C16": "scenarios.c16",
    "C17": "scenarios.c17",
}


def load_prop(pid):
    return importlib.import_module(PROPS[pid])


# ------------------------------------------------------------------------------------------------
# one world
# ------------------------------------------------------------------------------------------------
def run_world(pid, scenario, forced_trace=None, keep_world=False):
    """Build the world of `scenario`, run the property's workload in it, evaluate its oracles.
    Returns a JSON-able outcome."""
    from .bootstrap import bootstrap

    bootstrap()
    from . import rngseam, instrument, world as W

    mod = load_prop(pid)
    instrument.install()
    wd = W.World(scenario, forced_trace=forced_trace)
    instrument.prepare_world(wd)
    t0 = _real_time()
    out = {"pid": pid, "world_seed": scenario.get("world_seed"), "violations": [], "harness_error": None,
           "errors": [], "info": {}}
    rngseam.activate(wd)
    try:
        res = mod.execute(wd, scenario)
        out["violations"] = res.get("violations", [])
        out["errors"] = res.get("errors", [])
        out["info"] = res.get("info", {})
        out["key"] = res.get("key")
        out["nontrivial"] = bool(res.get("nontrivial", False))
    except W.HarnessError as e:
        out["harness_error"] = "HarnessError: " + str(e)
    except Exception as e:  # a bug in the harness itself
        out["harness_error"] = "".join(traceback.format_exception(type(e), e, e.__traceback__)[-6:])
    finally:
        rngseam.deactivate()
    out["digest"] = wd.digest()
    out["trace"] = wd.trace
    out["probes"] = dict(wd.probes)
    out["faults"] = dict(wd.faults)
    out["sim_seconds"] = wd.sim_seconds
    out["n_events"] = len(wd.events)
    out["wall"] = _real_time() - t0
    if keep_world:
        out["_world"] = wd
    return out


_preimported = False


def _preimport():
    """import (not run) everything a world may need, once per parent process, so that the forked world processes do not
    each pay for the imports; importing leaves the library in its pristine module-level state"""
    global _preimported
    if _preimported:
        return
    import importlib
    import pkgutil

    from . import instrument

    instrument.install()
    try:
        import rpylib

        for m in pkgutil.walk_packages(rpylib.__path__, "rpylib."):
            if ".tests" in m.name or m.name.endswith(".tests"):
                continue
            try:
                importlib.import_module(m.name)
            except Exception:
                pass  # optional plotting / benchmark dependencies
    except Exception:
        pass
    for name in ("builders", "stubs", "mlmc_stub", "c02nd", "c15nd"):
        try:
            importlib.import_module("scenarios." + name)
        except Exception:
            pass
    _preimported = True


def run_world_isolated(pid, scenario, forced_trace=None, deadline=1400.0):
    """One world = one OS process image: the world runs in a child forked from a process that has imported the library
    but never executed a world, so process-global state of the library (a class-level cache, a module-level counter - the
    kind of thing a defective tree may introduce) cannot leak from one world into the next and a world's outcome is a
    function of (scenario, decision trace, tree) alone - the same in a worker, in the minimiser and in a fresh interpreter.
    VERIF_NO_FORK=1 runs in-process (used by the coverage aid)."""
    if os.environ.get("VERIF_NO_FORK") or os.environ.get("VERIF_COVER"):
        return run_world(pid, scenario, forced_trace=forced_trace)
    import pickle
    import select

    from .bootstrap import bootstrap

    bootstrap()
    load_prop(pid)
    _preimport()
    r, w = os.pipe()
    sys.stdout.flush()
    sys.stderr.flush()
    child = os.fork()
    if child == 0:
        code = 0
        try:
            os.close(r)
            try:  # die with the parent (a killed worker must not leave a world spinning in native code)
                import ctypes

                ctypes.CDLL("libc.so.6", use_errno=True).prctl(1, 9)  # PR_SET_PDEATHSIG, SIGKILL
            except Exception:
                pass
            try:
                out = run_world(pid, scenario, forced_trace=forced_trace)
                data = pickle.dumps(out)
            except BaseException as e:  # MemoryError while pickling etc.
                data = pickle.dumps({"__fork_error__": "".join(traceback.format_exception(type(e), e, e.__traceback__)[-4:])})
            with os.fdopen(w, "wb") as f:
                f.write(data)
        except BaseException:
            code = 3
        finally:
            os._exit(code)
    os.close(w)
    chunks = []
    t_end = _real_time() + deadline
    failed = None
    with os.fdopen(r, "rb") as f:
        while True:
            left = t_end - _real_time()
            if left <= 0:
                failed = f"world did not finish within {deadline:.0f}s"
                break
            ready, _, _ = select.select([f], [], [], min(left, 5.0))
            if ready:
                b = os.read(f.fileno(), 1 << 20)
                if not b:
                    break
                chunks.append(b)
    if failed:
        try:
            os.kill(child, 9)
        except OSError:
            pass
    try:
        os.waitpid(child, 0)
    except OSError:
        pass
    out = None
    if not failed:
        try:
            out = pickle.loads(b"".join(chunks))
            if "__fork_error__" in out:
                failed, out = "world process failed: " + out["__fork_error__"], None
        except Exception as e:
            failed = "world process ended without a result: " + repr(e)
    if out is None:
        out = {"pid": pid, "world_seed": scenario.get("world_seed"), "violations": [], "harness_error": failed, "errors": [],
               "info": {}, "digest": "", "trace": [], "probes": {}, "faults": {}, "sim_seconds": 0.0, "n_events": 0, "wall": 0.0}
    return out


def outcome_digest(out):
    """digest of everything observable of a world: event log + verdicts (used by determinism self-tests)"""
    h = hashlib.sha256()
    h.update(out["digest"].encode())
    h.update(json.dumps([v["sig"] for v in out["violations"]], sort_keys=True).encode())
    h.update(json.dumps(out.get("errors", []), sort_keys=True, default=str).encode())
    h.update(json.dumps(out.get("info", {}), sort_keys=True, default=str).encode())
    h.update(json.dumps(out.get("trace", [])).encode())
    return h.hexdigest()


def world_seed(base_seed, i):
    return (int(base_seed) * 1_000_003 + i) % (2 ** 61 - 1)


def _worker_memory_limit():
    try:  # a defective allocation (huge sample arrays) must not take the machine down: MemoryError inside the world
        import resource

        lim = int(os.environ.get("VERIF_WORKER_MEM_GB", "2")) * (1 << 30)
        soft, hard = resource.getrlimit(resource.RLIMIT_AS)
        if hard != resource.RLIM_INFINITY:
            lim = min(lim, hard)
        resource.setrlimit(resource.RLIMIT_AS, (lim, hard if hard != resource.RLIM_INFINITY else lim))
    except Exception:
        pass


def _batch(args):
    pid, seeds, tier = args
    faulthandler.dump_traceback_later(1500, exit=True)
    _worker_memory_limit()
    mod = load_prop_bootstrapped(pid)
    cover = _cover_start()
    outs = []
    for s in seeds:
        sc = mod.generate(s, tier)
        o = run_world_isolated(pid, sc, deadline=float(os.environ.get("VERIF_WORLD_DEADLINE", 150 if tier == "quick" else 900)))
        # compact: drop the trace unless something happened
        slim = {k: o[k] for k in ("world_seed", "violations", "harness_error", "errors", "probes", "faults",
                                  "sim_seconds", "n_events", "wall", "key", "nontrivial", "digest") if k in o}
        slim["summary"] = mod.summarise(sc, o) if hasattr(mod, "summarise") else None
        if o["violations"] or o["harness_error"]:
            slim["scenario"] = sc
            slim["trace"] = o["trace"]
        outs.append(slim)
    faulthandler.cancel_dump_traceback_later()
    _cover_stop(cover, pid)
    return outs


# development aid (selftest/cover.py): which rpylib lines do the worlds of a check execute?  Off unless VERIF_COVER names a
# directory; uses sys.monitoring, so the simulated code is not changed and the event log is unaffected.
_COVER_TOOL = 3


def _cover_start():
    out_dir = os.environ.get("VERIF_COVER")
    if not out_dir:
        return None
    if os.environ.get("VERIF_COVER_BRANCH"):  # branch arcs through coverage.py (present in /venv), one data file per batch
        import coverage
        import uuid

        os.makedirs(out_dir, exist_ok=True)
        root_ = os.path.join(os.path.realpath(os.environ.get("VERIF_REPO", "/repo")), "rpylib")
        cov = coverage.Coverage(branch=True, data_file=os.path.join(out_dir, "cov." + uuid.uuid4().hex),
                                include=[root_ + "/*"], config_file=False)
        cov.start()
        return ("coverage.py", cov)
    mon = sys.monitoring
    root = os.path.join(os.path.realpath(os.environ.get("VERIF_REPO", "/repo")), "rpylib") + os.sep
    hits = set()

    def on_line(code, line):
        fn = code.co_filename
        if fn.startswith(root):
            hits.add((fn[len(root):], line))
        return mon.DISABLE

    try:
        mon.use_tool_id(_COVER_TOOL, "verif-cover")
    except ValueError:
        pass
    mon.register_callback(_COVER_TOOL, mon.events.LINE, on_line)
    mon.set_events(_COVER_TOOL, mon.events.LINE)
    return (out_dir, hits)


def _cover_stop(cover, pid):
    if not cover:
        return
    out_dir, hits = cover
    if out_dir == "coverage.py":
        hits.stop()
        hits.save()
        return
    sys.monitoring.set_events(_COVER_TOOL, 0)
    sys.monitoring.restart_events()
    import uuid

    os.makedirs(out_dir, exist_ok=True)
    with open(os.path.join(out_dir, f"{pid}-{uuid.uuid4().hex}.json"), "w") as f:
        json.dump(sorted(hits), f)


def load_prop_bootstrapped(pid):
    from .bootstrap import bootstrap

    bootstrap()
    return load_prop(pid)


# ------------------------------------------------------------------------------------------------
# known findings
# ------------------------------------------------------------------------------------------------
def load_known():
    p = os.path.join(VERIF, "known_findings.json")
    if not os.path.exists(p):
        return []
    with open(p) as f:
        return json.load(f).get("findings", [])


def known_open(pid):
    return {k["signature"]: k for k in load_known() if k["property"] == pid and k.get("status") == "open"}


# ------------------------------------------------------------------------------------------------
# minimisation
# ------------------------------------------------------------------------------------------------
def reproduces(pid, scenario, trace, sig):
    o = run_world_isolated(pid, scenario, forced_trace=trace, deadline=float(os.environ.get("VERIF_WORLD_DEADLINE", 150)))
    if o["harness_error"]:
        return False, o
    return any(v["sig"] == sig for v in o["violations"]), o


def minimise(pid, scenario, trace, sig, budget=120, on_improve=None):
    """delta-debugging: scenario knobs towards the property module's simplest element, then the decision trace.
    ``on_improve(scenario, trace, runs, outcome)`` is called after every accepted step (the caller may be cut short)"""
    mod = load_prop(pid)
    best_sc, best_tr = scenario, trace
    runs = 0

    def note(sc_, tr_, out_):
        if on_improve is not None:
            on_improve(sc_, [t[2] if isinstance(t, list) else int(t) for t in tr_], runs, out_)

    improved = True
    while improved and runs < budget:
        improved = False
        for cand in mod.shrink_candidates(best_sc):
            if runs >= budget:
                break
            runs += 1
            # first with every decision defaulted (simplest schedule), then with the recorded decisions
            ok, out = reproduces(pid, cand, [], sig)
            if ok:
                best_sc, best_tr, improved = cand, [], True
                note(best_sc, best_tr, out)
                break
            if best_tr:
                runs += 1
                ok, out = reproduces(pid, cand, [t[2] if isinstance(t, list) else t for t in best_tr], sig)
                if ok:
                    best_sc, improved = cand, True
                    note(best_sc, best_tr, out)
                    break
    # decision trace: zero from the end, then chunks
    tr = [t[2] if isinstance(t, list) else int(t) for t in best_tr]
    if tr and runs < budget:
        runs += 1
        ok, out = reproduces(pid, best_sc, [], sig)
        if ok:
            tr = []
            note(best_sc, tr, out)
    i = 0
    while tr and i < len(tr) and runs < budget:
        if tr[i] != 0:
            cand = tr[:i] + [0] + tr[i + 1:]
            runs += 1
            ok, out = reproduces(pid, best_sc, cand, sig)
            if ok:
                tr = cand
                note(best_sc, tr, out)
        i += 1
    while tr and tr[-1] == 0:
        tr.pop()
    return best_sc, tr, runs


def _slim_outcome(o, sig):
    return {"digest": o.get("digest", ""), "violations": [v for v in o.get("violations", []) if v["sig"] == sig][:3],
            "harness_error": o.get("harness_error")}


def _shrink_child(conn, pid, sc, tr, sig, budget):
    try:
        _worker_memory_limit()

        def on_improve(bsc, btr, runs, out):
            conn.send(("best", bsc, btr, runs, _slim_outcome(out, sig)))

        msc, mtr, runs = minimise(pid, sc, tr, sig, budget=budget, on_improve=on_improve) if budget else (sc, tr, 0)
        ok, oo = reproduces(pid, msc, mtr, sig)
        if not ok:  # never report an unminimised failure as minimised
            msc, mtr = sc, tr
            ok, oo = reproduces(pid, msc, mtr, sig)
        conn.send(("final", msc, mtr, runs, _slim_outcome(oo, sig), ok))
    except BaseException as e:  # incl. MemoryError under a defective tree
        try:
            conn.send(("error", repr(e)[:300]))
        except Exception:
            pass
    finally:
        conn.close()


def shrink_isolated(pid, sc, tr, sig, budget, wall, first_outcome):
    """minimise in a forked child under the workers' memory limit and a wall budget; the parent keeps the last accepted
    step, so a defective tree that makes re-runs slow or huge costs minimisation quality, never the verdict"""
    ctx = multiprocessing.get_context("fork")
    parent, child = ctx.Pipe(duplex=False)
    pr = ctx.Process(target=_shrink_child, args=(child, pid, sc, tr, sig, budget), daemon=True)
    pr.start()
    child.close()
    best = (sc, tr, 0, _slim_outcome(first_outcome, sig))
    status = "cut short by the wall budget"
    deadline = _real_time() + wall
    try:
        while True:
            left = deadline - _real_time()
            if left <= 0:
                break
            if parent.poll(min(left, 1.0)):
                try:
                    msg = parent.recv()
                except EOFError:
                    status = "child ended early"
                    break
                if msg[0] == "best":
                    best = (msg[1], msg[2], msg[3], msg[4])
                elif msg[0] == "final":
                    if msg[5]:
                        best = (msg[1], msg[2], msg[3], msg[4])
                    status = "complete"
                    break
                else:
                    status = "child failed: " + msg[1]
                    break
            elif not pr.is_alive() and not parent.poll(0):
                status = "child ended early"
                break
    finally:
        if pr.is_alive():
            pr.kill()
        pr.join(5)
        parent.close()
    return best + (status,)


def write_replay(pid, scenario, trace, sig, outcome, note=""):
    rdir = os.environ.get("VERIF_REPLAY_DIR", os.path.join(VERIF, "replays"))
    os.makedirs(rdir, exist_ok=True)
    sig8 = hashlib.sha256(sig.encode()).hexdigest()[:8]
    path = os.path.join(rdir, f"{pid}-{scenario.get('world_seed', 0)}-{sig8}.json")
    doc = {
        "property": pid,
        "signature": sig,
        "scenario": scenario,
        "decision_trace": trace,
        "event_digest": outcome["digest"],
        "violations": [v for v in outcome["violations"] if v["sig"] == sig][:3],
        "note": note,
        "repo_head": _git_head(),
    }
    with open(path, "w") as f:
        json.dump(doc, f, indent=1, default=str)
    return path


def _git_head():
    try:
        return subprocess.run(["git", "-C", os.environ.get("VERIF_REPO", "/repo"), "rev-parse", "HEAD"],
                              capture_output=True, text=True, timeout=10).stdout.strip()
    except Exception:
        return "unknown"


def _limit_own_memory():
    """worlds also run in THIS process (minimisation, replay): a defective tree that asks for huge sample arrays must end
    in a MemoryError inside the world, not in the machine's OOM killer taking the whole check down without a verdict"""
    try:
        import resource

        lim = int(os.environ.get("VERIF_PARENT_MEM_GB", "6")) * (1 << 30)
        soft, hard = resource.getrlimit(resource.RLIMIT_AS)
        if hard != resource.RLIM_INFINITY:
            lim = min(lim, hard)
        resource.setrlimit(resource.RLIMIT_AS, (lim, hard))
    except Exception:
        pass


def replay_file(path, quiet=False):
    _limit_own_memory()
    with open(path) as f:
        doc = json.load(f)
    pid = doc["property"]
    load_prop_bootstrapped(pid)
    ok, o = reproduces(pid, doc["scenario"], doc["decision_trace"], doc["signature"])
    same_digest = o["digest"] == doc.get("event_digest")
    if not quiet:
        print(f"replay {path}: signature {'REPRODUCED' if ok else 'not reproduced'}; "
              f"event digest {'identical' if same_digest else 'differs'}")
        for v in o["violations"]:
            print("  ", v["sig"], "--", json.dumps(v.get("detail"), default=str)[:400])
        if o["harness_error"]:
            print("  harness error:", o["harness_error"])
    return ok, same_digest, o


# ------------------------------------------------------------------------------------------------
# a check = many worlds
# ------------------------------------------------------------------------------------------------
def run_check(pid, tier, base_seed, n_worlds=None, workers=None, wall_budget=None):
    t_start = _real_time()
    _limit_own_memory()
    mod = load_prop_bootstrapped(pid)
    cfg = mod.TIERS[tier]
    n = int(n_worlds or cfg["worlds"])
    wall_budget = wall_budget or cfg.get("wall", 3000)
    workers = workers or min(16, os.cpu_count() or 1)
    seeds = [world_seed(base_seed, i) for i in range(n)]
    per = max(1, min(16, n // (workers * 4) or 1))
    batches = [(pid, seeds[i:i + per], tier) for i in range(0, n, per)]
    outs = []
    harness_errors = []
    timed_out = False
    ctx = multiprocessing.get_context("fork")
    with cf.ProcessPoolExecutor(max_workers=workers, mp_context=ctx) as ex:
        futs = [ex.submit(_batch, b) for b in batches]
        try:
            for fu in cf.as_completed(futs, timeout=wall_budget):
                try:
                    outs.extend(fu.result())
                except Exception as e:
                    harness_errors.append("worker failed: " + repr(e))
        except cf.TimeoutError:
            timed_out = True
            for fu in futs:
                fu.cancel()
            for p in list(getattr(ex, "_processes", {}).values()):
                try:
                    p.kill()
                except Exception:
                    pass
    outs.sort(key=lambda o: o["world_seed"])
    for o in outs:
        if o["harness_error"]:
            harness_errors.append(f"seed {o['world_seed']}: {o['harness_error']}")

    # ---- aggregate ------------------------------------------------------------------------------
    probes, faults = Counter(), Counter()
    keys = set()
    sim_seconds = 0.0
    by_sig = {}
    err_kinds = Counter()
    for o in outs:
        probes.update(o["probes"])
        faults.update(o["faults"])
        sim_seconds += o["sim_seconds"]
        if o.get("nontrivial") and o.get("key") is not None:
            keys.add(o["key"])
        for v in o["violations"]:
            by_sig.setdefault(v["sig"], []).append((o, v))
        for e in o.get("errors", []):
            err_kinds[e if isinstance(e, str) else e.get("kind", "?")] += 1

    known = known_open(pid)
    known_hit, new_sigs = [], []
    for sig in sorted(by_sig):
        (known_hit if sig in known else new_sigs).append(sig)

    exit_code = 0
    lines = []
    for sig in known_hit:
        lines.append(f"KNOWN-FINDING: property={pid} {sig}  [{len(by_sig[sig])} world(s) this run]")
    replays = []
    screen = bool(os.environ.get("VERIF_SCREEN"))  # development-time screening of mutants: verdict only
    shrink_deadline = _real_time() + cfg.get("shrink_wall_total", 300 if tier == "quick" else 1500)
    for sig in new_sigs:
        # the smallest world showing the signature (shortest event log; a deterministic measure) is minimised and replayed
        o, v = min(by_sig[sig], key=lambda ov: (ov[0].get("n_events", 0), ov[0]["world_seed"]))
        if screen:
            lines.append(f"VIOLATION property={pid} replay=(screening run: not written)")
            lines.append(f"  signature: {sig}")
            exit_code = 1
            continue
        sc, tr = o["scenario"], [t[2] for t in o["trace"]]
        world_wall = float(o.get("wall", 1.0))
        try:
            budget = 0 if os.environ.get("VERIF_NO_MINIMISE") else cfg.get("shrink_budget", 80)
            if len(new_sigs) > 6:  # many distinct signatures at once: share the budget
                budget = max(8, budget // 4) if budget else 0
            left = shrink_deadline - _real_time()
            wall_sig = max(0.0, min(left, cfg.get("shrink_wall", 120 if tier == "quick" else 600)))
            full = len(replays) < cfg.get("max_minimised_signatures", 10)
            if not full:
                # many signatures of one defect: the remaining ones get their recorded (unminimised) world as replay file
                path = write_replay(pid, sc, tr, sig, _slim_outcome(o, sig),
                                    note=f"recorded world of seed {o['world_seed']} (not minimised: {len(replays)} signatures already were)")
                replays.append(path)
                lines.append(f"VIOLATION property={pid} replay={path}")
                lines.append(f"  signature: {sig}")
                exit_code = 1
                continue
            if budget and wall_sig > 3 * world_wall + 2:
                msc, mtr, runs, oo, status = shrink_isolated(pid, sc, tr, sig, budget, wall_sig, o)
            else:
                msc, mtr, runs, oo, status = sc, tr, 0, _slim_outcome(o, sig), "not attempted (no budget left)"
            path = write_replay(pid, msc, mtr, sig, oo, note=f"minimised in {runs} re-runs from seed {o['world_seed']} ({status})")
            # the replay file must reproduce in a fresh interpreter (same memory limit as the workers)
            try:
                rc = subprocess.run([sys.executable, os.path.join(VERIF, "run.py"), "replay", path, "--quiet"],
                                    capture_output=True, text=True, timeout=max(90.0, 6 * world_wall + 30),
                                    env=dict(os.environ, PYTHONHASHSEED="0",
                                             VERIF_PARENT_MEM_GB=os.environ.get("VERIF_WORKER_MEM_GB", "2")))
                if rc.returncode != 1:
                    harness_errors.append(f"replay of {path} did not reproduce in a fresh interpreter "
                                          f"(rc={rc.returncode}): {rc.stdout[-300:]} {rc.stderr[-300:]}")
            except subprocess.TimeoutExpired:
                lines.append(f"  note: the fresh-interpreter replay of {path} did not finish in its time limit")
            replays.append(path)
            lines.append(f"VIOLATION property={pid} replay={path}")
            lines.append(f"  signature: {sig}")
            lines.append(f"  detail: {json.dumps(v.get('detail'), default=str)[:600]}")
            exit_code = 1
        except Exception as e:
            harness_errors.append("minimisation failed: " + repr(e) + traceback.format_exc()[-800:])
            path = write_replay(pid, sc, tr, sig, o | {"digest": o.get("digest", "")})
            lines.append(f"VIOLATION property={pid} replay={path}")
            exit_code = 1

    completed = [o for o in outs if not o["harness_error"]]
    partial = None
    if timed_out:
        # a slow or loaded machine explores fewer worlds inside the wall budget: that is less evidence, not a broken check -
        # unless so little ran that nothing can be said
        if len(completed) >= max(1, n // 5):
            partial = f"wall budget {wall_budget}s reached with {len(completed)}/{n} worlds completed (verdict covers those)"
        else:
            harness_errors.append(f"wall budget {wall_budget}s exceeded with {len(outs)}/{n} worlds done")
    if len(completed) < n and not timed_out and not harness_errors:
        harness_errors.append(f"only {len(completed)}/{n} worlds completed")
    # reach self-check: required probes must have fired (not demanded of a run cut short by the wall budget)
    missing = [p for p in cfg.get("required_probes", []) if probes.get(p, 0) == 0]
    if missing and not harness_errors and not partial:
        harness_errors.append("required reach probes at zero: " + ", ".join(missing))

    wall = _real_time() - t_start
    samples = [o["summary"] for o in outs if o.get("summary")][:3]
    evidence = {
        "property_id": pid,
        "tier": tier,
        "seed": int(base_seed),
        "level": "exploration",
        "coverage": {
            "evaluations": len(completed),
            "distinct_nontrivial": len(keys),
            "rule": mod.RULE,
            "samples": samples or [{"note": "no world completed"}],
            "worlds_per_hour": round(len(completed) / max(wall, 1e-9) * 3600),
            "simulated_seconds_covered": round(sim_seconds, 3),
            "events_total": sum(o["n_events"] for o in outs),
            "faults_fired": dict(sorted(faults.items())),
            "probes_reached": dict(sorted(probes.items())),
            "workload_exceptions_by_kind": dict(err_kinds),
            "real_components": mod.REAL,
            "stub_components": mod.STUB,
            "known_findings_seen": known_hit,
            "new_violation_signatures": new_sigs,
            "replay_files": replays,
            "seeds": f"world_seed(base={base_seed}, i) for i in [0,{n})",
            "harness_errors": harness_errors[:5],
            "partial_run": partial,
        },
        "assumptions": mod.ASSUMPTIONS,
        "wall_s": round(wall, 3),
        "violations": len(new_sigs),
    }
    edir = os.environ.get("VERIF_EVIDENCE_DIR", os.path.join(VERIF, "evidence"))
    os.makedirs(edir, exist_ok=True)
    with open(os.path.join(edir, f"{pid}.json"), "w") as f:
        json.dump(evidence, f, indent=1, default=str)

    for ln in lines:
        print(ln)
    if partial:
        print("NOTE", pid, partial)
    print(f"[{pid} {tier}] worlds={len(completed)}/{n} distinct_nontrivial={len(keys)} new_violations={len(new_sigs)} "
          f"known={len(known_hit)} wall={wall:.1f}s sim={sim_seconds:.1f}s faults={sum(faults.values())}")
    if harness_errors:
        for h in harness_errors[:10]:
            print("HARNESS-ERROR", pid, h.replace("\n", " | ")[:1500])
        if exit_code == 0:
            exit_code = 2
    return exit_code
