"""The simulated world: one pricing session, one PRNG, one totally ordered event log.

A *world* owns
  * the virtual clock (float seconds, advanced only by the simulator),
  * the pid allocator (small ``pid_max`` => pid reuse across consecutive pools),
  * the process contexts (parent + pool workers), each with its OWN numpy RandomState and stdlib Random
    (children start from a copy of the parent's generator state: what fork() does),
  * the chooser: every scheduling / fault decision is ``world.choose(label, n)``; it is answered from a
    forced decision trace when replaying / minimising, else from the world's private PRNG; always recorded,
  * the ledgers (variates, samples, control) and the counters of fired faults and reached probes.

Nothing here reads a real clock, the real pid, ``hash()`` of a str, or a module-level RNG.
"""
import hashlib
import random as _pyrandom
from collections import Counter

import numpy as _np


def derive(seed, label):
    """independent 64-bit sub-seed for a labelled consumer (never Python's salted hash())"""
    h = hashlib.sha256(f"{seed}:{label}".encode()).digest()
    return int.from_bytes(h[:8], "big")


def sub_rng(seed, label):
    return _pyrandom.Random(derive(seed, label))


def fp_np(rs):
    st = rs.get_state(legacy=True)
    h = hashlib.blake2b(digest_size=8)
    h.update(st[1].tobytes())
    h.update(repr((int(st[2]), int(st[3]), float(st[4]))).encode())
    return h.hexdigest()


def fp_py(r):
    st = r.getstate()
    return "%016x" % (hash((st[1], st[2])) & 0xFFFFFFFFFFFFFFFF)


class Context:
    """a simulated OS process: pid + the two process-global generators"""

    __slots__ = ("name", "pid", "nprs", "pyr", "epoch_np", "epoch_py", "fp_np", "fp_py", "role", "alive",
                 "tasks_run", "free_at")

    def __init__(self, name, pid, nprs, pyr, role):
        self.name = name
        self.pid = pid
        self.nprs = nprs
        self.pyr = pyr
        self.role = role
        self.epoch_np = 0
        self.epoch_py = 0
        self.fp_np = fp_np(nprs)
        self.fp_py = fp_py(pyr)
        self.alive = True
        self.tasks_run = 0
        self.free_at = 0.0


class HarnessError(Exception):
    """raised for conditions that are the harness's fault or a bound being hit - never a verdict"""


class SimBudgetExceeded(Exception):
    """the simulated system asked for more samples in one request than any world of the scenario families needs (a
    runaway loop under a defective tree): ended here, deterministically, instead of by the host's memory limit - so the
    world's outcome does not depend on how much memory the host happens to have left. Recorded as a workload exception."""

    verif_passthrough = True


SAMPLE_REQUEST_BUDGET = 1_000_000


def check_request(n, what):
    try:
        n = int(n)
    except Exception:
        return
    if n > SAMPLE_REQUEST_BUDGET:
        raise SimBudgetExceeded(f"{what}: {n} samples in one request (budget {SAMPLE_REQUEST_BUDGET})")


class World:
    def __init__(self, scenario, forced_trace=None):
        self.scenario = scenario
        self.seed = int(scenario.get("world_seed", 0))
        self._sched = sub_rng(self.seed, "scheduler")
        self.forced = list(forced_trace) if forced_trace is not None else None
        self._forced_pos = 0
        self.trace = []  # every decision: [label, n, value]

        env = scenario.get("env", {})
        self.now = float(env.get("t0", 1_700_000_000.25))
        self.path_cost = float(env.get("path_cost", 1e-4))  # virtual seconds per simulated path
        self.spawn_cost = float(env.get("spawn_cost", 1e-3))  # per worker start
        self.dispatch_cost = float(env.get("dispatch_cost", 1e-5))
        self.clock_jumps = {int(k): float(v) for k, v in env.get("clock_jumps", [])}  # k-th clock read -> delta
        self.clock_reads = 0
        self.sim_seconds = 0.0
        self.pid_min = int(env.get("pid_min", 300))
        self.pid_max = int(env.get("pid_max", 4_194_304))
        self._pid_next = int(env.get("pid_next", 5000))
        self.cpu_count = int(env.get("cpu_count", 4))
        # fault "pool.task_failed": one task of a map call raises in its worker (before or after doing its work); 0 = never,
        # k = each map call with more than one task is hit with probability 1/k (a scheduler decision, recorded in the trace)
        self.task_fail_one_in = int(env.get("task_fail_one_in", 0))

        g = sub_rng(self.seed, "parent-generators")
        nprs = _np.random.RandomState(g.getrandbits(32))
        pyr = _pyrandom.Random(g.getrandbits(64))
        self.parent = Context("parent", int(env.get("parent_pid", 4242)), nprs, pyr, "parent")
        self.current = self.parent
        self.contexts = [self.parent]
        self.live_pids = {self.parent.pid}
        self.pools_created = 0
        self.pool_inits = []  # per pool: [(ctx name, pid, fp_np, fp_py)] right after the initializers ran

        self.events = []  # totally ordered event log
        self.draws = []  # variate ledger
        self.samples = []  # sample ledger
        self.control = []  # control ledger
        self.faults = Counter()
        self.probes = Counter()
        self.level = None  # engine bookkeeping set by the harness wrappers
        self.run_index = 0
        self.record_values = False
        self.script = None  # rng script hook (callable) or None
        self._digest = hashlib.sha256()

    # ---- choices -------------------------------------------------------------------------------
    def choose(self, label, n):
        if n <= 1:
            v = 0
        elif self.forced is not None:
            if self._forced_pos < len(self.forced):
                v = int(self.forced[self._forced_pos]) % n
            else:
                v = 0
            self._forced_pos += 1
        else:
            v = self._sched.randrange(n)
        if n > 1:
            self.trace.append([label, n, v])
        return v

    # ---- event log -----------------------------------------------------------------------------
    def log(self, kind, *data):
        ev = (kind,) + data
        self.events.append(ev)
        self._digest.update(repr(ev).encode())

    def digest(self):
        return self._digest.hexdigest()

    # ---- clock ---------------------------------------------------------------------------------
    def advance(self, dt):
        if dt > 0:
            self.now += dt
            self.sim_seconds += dt

    def read_clock(self):
        k = self.clock_reads
        self.clock_reads += 1
        if k in self.clock_jumps:
            d = self.clock_jumps[k]
            self.now += d
            self.faults["clock.step_back" if d < 0 else "clock.step_fwd"] += 1
            self.log("clock.jump", k, d)
        self.log("clock.read", self.current.name, repr(self.now))
        return self.now

    # ---- pids / contexts -----------------------------------------------------------------------
    def alloc_pid(self):
        span = self.pid_max - self.pid_min + 1
        for _ in range(span + 1):
            p = self._pid_next
            self._pid_next += 1
            if self._pid_next > self.pid_max:
                self._pid_next = self.pid_min
            if p not in self.live_pids:
                self.live_pids.add(p)
                return p
        raise HarnessError("pid space exhausted")

    def fork(self, name, role="worker"):
        """child context: COPY of the current context's generator states (fork semantics), fresh pid"""
        par = self.current
        nprs = _np.random.RandomState()
        nprs.set_state(par.nprs.get_state(legacy=True))
        pyr = _pyrandom.Random()
        pyr.setstate(par.pyr.getstate())
        ctx = Context(name, self.alloc_pid(), nprs, pyr, role)
        ctx.epoch_np, ctx.epoch_py = par.epoch_np, par.epoch_py
        self.contexts.append(ctx)
        self.faults["fork.inherit"] += 1
        self.log("fork", name, ctx.pid, ctx.fp_np)
        return ctx

    def reap(self, ctx):
        ctx.alive = False
        self.live_pids.discard(ctx.pid)
        self.log("exit", ctx.name, ctx.pid)

    def switch(self, ctx):
        prev = self.current
        self.current = ctx
        return prev
