"""RNG / clock / pid / pool seams, installed once per OS process from outside the repo (no source hook).

``numpy.random.<fn>`` and ``random.<fn>`` module attributes are rebound to wrappers that dispatch to the
*current simulated context's own* generator, record the call in the world's variate ledger and may substitute
scripted values (always after advancing the real generator so everything downstream is unchanged).
With no active world the wrappers fall through to the original functions.
"""
import os as _os
import random as _random
import sys
import time as _time
import types

import numpy as _np

from . import world as _w

ACTIVE = None  # the active World (one per OS process at a time)

_NP_ORIG = {}
_PY_ORIG = {}
_installed = False

_NP_NAMES = [
    "seed", "normal", "uniform", "poisson", "random_sample", "random", "ranf", "sample", "choice", "rand", "randn",
    "randint", "standard_normal", "exponential", "standard_exponential", "gamma", "beta", "binomial", "shuffle",
    "permutation", "bytes", "lognormal", "laplace", "multivariate_normal", "geometric", "get_state", "set_state",
    "random_integers", "triangular", "standard_gamma", "chisquare", "standard_t", "negative_binomial", "multinomial",
]
_PY_NAMES = [
    "seed", "random", "getrandbits", "randrange", "randint", "uniform", "choice", "choices", "shuffle", "sample",
    "gauss", "normalvariate", "expovariate", "betavariate", "gammavariate", "lognormvariate", "triangular",
    "getstate", "setstate", "randbytes", "paretovariate", "vonmisesvariate", "weibullvariate",
]


def _consumer(stack=0):
    """qualified name of the nearest rpylib frame (``stack`` > 0: up to that many rpylib frames, joined by '<').
    Read-only introspection: never influences a choice."""
    f = sys._getframe(2)
    depth = 0
    found = []
    while f is not None and depth < 40:
        fn = f.f_code.co_filename
        if "/rpylib/" in fn and "/verif/" not in fn:
            mod = fn.rsplit("/rpylib/", 1)[1][:-3].replace("/", ".")
            qual = getattr(f.f_code, "co_qualname", f.f_code.co_name)
            found.append(mod + ":" + qual)
            if len(found) >= max(1, stack):
                break
        f = f.f_back
        depth += 1
    if not found:
        return "harness"
    return "<".join(found)


def _size_of(v):
    if isinstance(v, _np.ndarray):
        return tuple(v.shape)
    if isinstance(v, (list, tuple)):
        return (len(v),)
    return ()


def _mk_np(name):
    orig = _NP_ORIG[name]

    def wrapper(*a, **k):
        wd = ACTIVE
        if wd is None:
            return orig(*a, **k)
        ctx = wd.current
        before = ctx.fp_np
        if name == "seed" and (not a or a[0] is None) and not k:
            # OS-entropy seeding: answered by the simulated host's entropy source (deterministic per world)
            a = (int.from_bytes(wd._entropy.randbytes(4), "little"),)
            wd.probes["rng.seed_from_entropy"] += 1
        val = getattr(ctx.nprs, name)(*a, **k)
        if name in ("get_state",):
            return val
        after = _w.fp_np(ctx.nprs)
        ctx.fp_np = after
        cons = _consumer(3 if name in ("seed", "set_state") else 0)
        if name in ("seed", "set_state"):
            ctx.epoch_np += 1
            wd.draws.append(("np", "seed", ctx.name, ctx.epoch_np, cons, repr(a[0]) if a else "None", before, after, None))
            wd.log("np.seed", ctx.name, repr(a[0]) if a else "None", after)
            return val
        if wd.script is not None:
            val = wd.script(wd, ctx, "np." + name, cons, a, k, val)
        rec = None
        if wd.record_values:
            rec = _np.array(val, copy=True) if isinstance(val, _np.ndarray) else val
        wd.draws.append(("np", name, ctx.name, ctx.epoch_np, cons, _size_of(val), before, after, rec))
        return val

    wrapper.__name__ = name
    wrapper.__verif_seam__ = True
    return _SeamFn(name, wrapper)


class _SeamFn:
    """numpy.random.<name> under simulation. The real object is a bound method of numpy's process-global RandomState: when
    a reference to it is STORED in an object that is later copied or pickled (to a pool worker), the generator goes along
    BY VALUE, frozen in the state it had at that moment. A plain function would be pickled by reference and hide that."""

    __verif_seam__ = True

    def __init__(self, name, call):
        self.__name__ = name
        self.__qualname__ = name
        self._call = call

    def __call__(self, *a, **k):
        return self._call(*a, **k)

    def __reduce__(self):
        wd = ACTIVE
        if wd is None:
            return (_lookup_np, (self.__name__,))
        wd.probes["rng.global_generator_method_copied"] += 1
        return (_FrozenFn, (self.__name__, wd.current.nprs.get_state()))

    def __deepcopy__(self, memo):
        fn, args = self.__reduce__()
        return fn(*args)

    def __copy__(self):
        return self


def _lookup_np(name):
    return getattr(_np.random, name)


class _FrozenFn:
    """a copy of numpy.random.<name> taken by value: draws from its own private generator (recorded in the draw ledger)"""

    def __init__(self, name, state):
        self.__name__ = name
        self._rs = _np.random.RandomState()
        self._rs.set_state(state)

    def __call__(self, *a, **k):
        wd = ACTIVE
        before = _w.fp_np(self._rs)
        val = getattr(self._rs, self.__name__)(*a, **k)
        after = _w.fp_np(self._rs)
        if wd is not None:
            wd.probes["rng.copied_generator_used"] += 1
            rec = (_np.array(val, copy=True) if isinstance(val, _np.ndarray) else val) if wd.record_values else None
            wd.draws.append(("np", self.__name__, wd.current.name, -1, _consumer(0), _size_of(val), before, after, rec))
        return val

    def __reduce__(self):
        return (_FrozenFn, (self.__name__, self._rs.get_state()))


def _mk_py(name):
    orig = _PY_ORIG[name]

    def wrapper(*a, **k):
        wd = ACTIVE
        if wd is None:
            return orig(*a, **k)
        ctx = wd.current
        before = ctx.fp_py
        if name == "seed" and (not a or a[0] is None) and not k:
            a = (int.from_bytes(wd._entropy.randbytes(8), "little"),)
            wd.probes["rng.seed_from_entropy"] += 1
        val = getattr(ctx.pyr, name)(*a, **k)
        if name == "getstate":
            return val
        after = _w.fp_py(ctx.pyr)
        ctx.fp_py = after
        cons = _consumer(3 if name in ("seed", "setstate") else 0)
        if name in ("seed", "setstate"):
            ctx.epoch_py += 1
            wd.draws.append(("py", "seed", ctx.name, ctx.epoch_py, cons, repr(a[0]) if a else "None", before, after, None))
            wd.log("py.seed", ctx.name, repr(a[0]) if a else "None", after)
            return val
        if wd.script is not None:
            val = wd.script(wd, ctx, "py." + name, cons, a, k, val)
        wd.draws.append(("py", name, ctx.name, ctx.epoch_py, cons, _size_of(val), before, after,
                         val if wd.record_values else None))
        return val

    wrapper.__name__ = name
    wrapper.__verif_seam__ = True
    return wrapper


def _default_rng(*a, **k):
    wd = ACTIVE
    if wd is not None:
        wd.log("np.default_rng", wd.current.name, repr(a[0]) if a else "None")
        wd.probes["rng.default_rng_called"] += 1
        if (not a or a[0] is None) and not k:
            a = (int.from_bytes(wd._entropy.randbytes(8), "little"),)
    return _NP_ORIG["default_rng"](*a, **k)


def _from_rpylib(depth=2):
    fn = sys._getframe(depth).f_code.co_filename
    return "/rpylib/" in fn and "/verif/" not in fn


_REAL = {"time": _time.time, "time_ns": _time.time_ns, "getpid": _os.getpid, "urandom": _os.urandom,
         "cpu_count": _os.cpu_count, "monotonic": _time.monotonic, "perf_counter": _time.perf_counter}


def real_time():
    return _REAL["time"]()


def _sim_time():
    wd = ACTIVE
    if wd is None or not _from_rpylib():
        return _REAL["time"]()
    return wd.read_clock()


def _sim_time_ns():
    wd = ACTIVE
    if wd is None or not _from_rpylib():
        return _REAL["time_ns"]()
    return int(wd.read_clock() * 1e9)


def _sim_monotonic():
    wd = ACTIVE
    if wd is None or not _from_rpylib():
        return _REAL["monotonic"]()
    return wd.read_clock()


def _sim_perf_counter():
    wd = ACTIVE
    if wd is None or not _from_rpylib():
        return _REAL["perf_counter"]()
    return wd.read_clock()


def _sim_getpid():
    wd = ACTIVE
    if wd is None or not _from_rpylib():
        return _REAL["getpid"]()
    wd.log("getpid", wd.current.name, wd.current.pid)
    return wd.current.pid


def _sim_cpu_count():
    wd = ACTIVE
    if wd is None or not _from_rpylib():
        return _REAL["cpu_count"]()
    return wd.cpu_count


def _sim_urandom(n):
    wd = ACTIVE
    if wd is None or not _from_rpylib():
        return _REAL["urandom"](n)
    # entropy source of the simulated host: drawn from the world's own PRNG, distinct per call
    wd.log("urandom", wd.current.name, n)
    wd.probes["os.urandom_called"] += 1
    # the simulated host never hands out the same bytes twice within a world (a 32-bit birthday collision is
    # legal but would be a false alarm of probability ~1e-7 per world: excluded, and stated as an assumption)
    for _ in range(64):
        b = wd._entropy.randbytes(n)
        if b not in wd._entropy_seen or n == 0:
            break
    wd._entropy_seen.add(b)
    return b


def install():
    """idempotent; patches numpy.random.*, random.*, the configuration module's time/os, and the pool"""
    global _installed
    if _installed:
        return
    for name in _NP_NAMES:
        if hasattr(_np.random, name):
            _NP_ORIG[name] = getattr(_np.random, name)
    _NP_ORIG["default_rng"] = _np.random.default_rng
    for name in list(_NP_ORIG):
        if name == "default_rng":
            _np.random.default_rng = _default_rng
        else:
            setattr(_np.random, name, _mk_np(name))
    for name in _PY_NAMES:
        if hasattr(_random, name):
            _PY_ORIG[name] = getattr(_random, name)
    for name in list(_PY_ORIG):
        setattr(_random, name, _mk_py(name))

    # clock / pid / entropy: global module attributes, virtual only for callers inside rpylib
    _time.time = _sim_time
    _time.time_ns = _sim_time_ns
    _time.monotonic = _sim_monotonic
    _time.perf_counter = _sim_perf_counter
    _os.getpid = _sim_getpid
    _os.urandom = _sim_urandom
    _os.cpu_count = _sim_cpu_count

    from . import simpool
    import pathos.multiprocessing as pmp

    simpool.REAL_POOL = pmp.Pool
    pmp.Pool = simpool.SimPool
    pmp.ProcessPool = simpool.SimPool if not hasattr(pmp, "ProcessPool") else pmp.ProcessPool
    pmp.cpu_count = lambda: (ACTIVE.cpu_count if ACTIVE is not None else _os.cpu_count())
    _installed = True


def activate(wd):
    global ACTIVE
    install()
    ACTIVE = wd
    if not hasattr(wd, "_entropy"):
        wd._entropy = _w.sub_rng(wd.seed, "host-entropy")
        wd._entropy_seen = set()


def deactivate():
    global ACTIVE
    ACTIVE = None
