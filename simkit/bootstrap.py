"""Process-level set-up that must happen before numpy / rpylib are imported.

* pins BLAS/OpenMP thread counts to 1 (float results enter digests; many worlds share the machine)
* imports sympy first with python ground types, then injects the two third-party stubs the image lacks
  (gmpy2: only ``qdiv`` is used by rpylib -> exact ``fractions.Fraction``; tqdm: identity iterator)
* checks that ``rpylib`` resolves to /repo's working tree (the venv holds a develop link)
"""
import os
import sys
import types

REPO = os.environ.get("VERIF_REPO", "/repo")

_done = False


def bootstrap():
    global _done
    if _done:
        return
    for var in ("OPENBLAS_NUM_THREADS", "OMP_NUM_THREADS", "MKL_NUM_THREADS", "NUMEXPR_NUM_THREADS"):
        os.environ[var] = "1"
    os.environ.setdefault("SYMPY_GROUND_TYPES", "python")
    os.environ.setdefault("MPLBACKEND", "Agg")
    if REPO not in sys.path:
        sys.path.insert(0, REPO)
    stubs = []
    try:
        import gmpy2  # noqa: F401
    except Exception:
        import sympy  # noqa: F401  (must come first: sympy probes gmpy2.version)
        import fractions

        mod = types.ModuleType("gmpy2")
        mod.qdiv = lambda n, d=1: fractions.Fraction(n, d)
        mod.__verif_stub__ = True
        sys.modules["gmpy2"] = mod
        stubs.append("gmpy2")
    try:
        import tqdm  # noqa: F401
    except Exception:
        mod = types.ModuleType("tqdm")
        mod.tqdm = lambda it=None, *a, **k: it
        mod.__verif_stub__ = True
        sys.modules["tqdm"] = mod
        stubs.append("tqdm")
    import logging

    logging.disable(logging.CRITICAL)
    import warnings

    warnings.simplefilter("ignore")
    import rpylib

    here = os.path.realpath(os.path.dirname(rpylib.__file__))
    want = os.path.realpath(os.path.join(REPO, "rpylib"))
    if here != want:
        raise RuntimeError(f"rpylib resolves to {here}, expected {want}")
    bootstrap.stubs = stubs
    _done = True


bootstrap.stubs = []
