"""simkit - deterministic simulation kit for rpylib (see /verif/DESIGN.md section 3)."""
