"""SimPool - in-process stand-in for ``multiprocess.pool.Pool`` (the class pathos re-exports).

Semantics copied from multiprocess.pool (0.70.x):
  * ``Pool(processes, initializer, initargs)``: W workers forked at construction (fork start method: the
    children inherit the parent's memory, hence its generator states and the initializer closure un-pickled);
    ``initializer(*initargs)`` runs once in every worker before its first task.
  * ``map_async``: ``chunksize, extra = divmod(n, 4*W); chunksize += bool(extra)``; one task per chunk,
    ``(func, chunk)`` pickled SEPARATELY per task with the very pickler the real pool uses
    (``multiprocess.reduction.ForkingPickler`` = dill) - so every task works on a fresh copy of the function and of
    everything its closure reaches. Tasks leave the queue FIFO; WHICH worker takes the next task, and at which
    virtual instant, is the scheduler's decision. Results make a pickle round trip back. When all chunks are in:
    results concatenated in index order, ``callback(all)`` once in the parent, ``.get()`` returns them.
  * an exception inside a task: ``.get()`` re-raises it in the parent, callback not called, error_callback called.
Worker death / pool self-repair are not modelled (no property speaks of them).

Per-worker virtual timelines: a worker's clock runs along its own ``free_at``; tasks of different workers overlap in
virtual time although they execute one after the other in this OS process.
"""
import itertools

from . import rngseam
from .world import HarnessError, check_request

REAL_POOL = None

try:
    from multiprocess.reduction import ForkingPickler as _FP
except Exception:  # pragma: no cover
    _FP = None


def _dumps(obj):
    return bytes(_FP.dumps(obj))


def _loads(b):
    return _FP.loads(b)


def _mapstar(args):
    return list(map(*args))


def _starmapstar(args):
    return list(itertools.starmap(args[0], args[1]))


class InjectedWorkerFailure(OSError):
    """fault injected by the simulated pool: the task died in its worker; shipped back like any worker exception"""


class _Result:
    def __init__(self, value=None, error=None):
        self._value = value
        self._error = error

    def get(self, timeout=None):
        if self._error is not None:
            raise self._error
        return self._value

    def wait(self, timeout=None):
        return None

    def ready(self):
        return True

    def successful(self):
        return self._error is None


class SimPool:
    def __new__(cls, *a, **k):
        if rngseam.ACTIVE is None:
            # outside a world: behave as the real thing
            return REAL_POOL(*a, **k)
        return super().__new__(cls)

    def __init__(self, processes=None, initializer=None, initargs=(), maxtasksperchild=None, context=None):
        wd = rngseam.ACTIVE
        self.wd = wd
        if initializer is not None and not callable(initializer):
            raise TypeError("initializer must be a callable")
        if processes is None:
            processes = wd.cpu_count
            wd.probes["pool.width_from_cpu_count"] += 1
        if processes < 1:
            raise ValueError("Number of processes must be at least 1")
        self._processes = processes
        self._closed = False
        self.index = wd.pools_created
        wd.pools_created += 1
        wd.log("pool.new", self.index, processes, repr(wd.now))
        parent = wd.current
        self._parent = parent
        t_spawn = wd.now
        self._workers = []
        for i in range(processes):
            ctx = wd.fork(f"pool{self.index}.w{i}")
            # start-up delay of this worker (scheduler decision): decides the instant its initializer reads the clock
            slots = wd.choose("init.delay", 8)
            ctx.free_at = t_spawn + wd.spawn_cost * (1 + i) + wd.spawn_cost * slots
            self._workers.append(ctx)
        # initializer order is immaterial for the contexts (they do not interact) but is part of the event order
        order = list(range(processes))
        if processes > 1 and wd.choose("init.order", 2):
            # a seeded permutation of the initializer order
            for j in range(processes - 1, 0, -1):
                r = wd.choose("init.perm", j + 1)
                order[j], order[r] = order[r], order[j]
            wd.faults["sched.shuffle"] += 1
        for i in order:
            ctx = self._workers[i]
            if initializer is not None:
                prev = wd.switch(ctx)
                t_parent = wd.now
                wd.now = ctx.free_at
                try:
                    wd.log("init.run", ctx.name, repr(wd.now))
                    initializer(*initargs)
                finally:
                    ctx.free_at = wd.now
                    wd.now = t_parent
                    wd.switch(prev)
        wd.pool_inits.append((self.index, wd.run_index, len(wd.draws),
                              [(c.name, c.pid, c.fp_np, c.fp_py) for c in self._workers]))
        wd.advance(wd.spawn_cost * processes)

    # -- context manager / lifecycle ----------------------------------------------------------------
    def __enter__(self):
        return self

    def __exit__(self, *exc):
        self.terminate()
        return False

    def close(self):
        self._closed = True

    def join(self):
        self._reap()

    def terminate(self):
        self._closed = True
        self._reap()

    def _reap(self):
        for ctx in self._workers:
            if ctx.alive:
                self.wd.reap(ctx)

    def __del__(self):
        try:
            self._reap()
        except Exception:
            pass

    # -- task execution -------------------------------------------------------------------------------
    def _run_tasks(self, tasks, n_items_of):
        """tasks: list of pickled (fn, args) blobs in queue order. Returns list of (ok, value) per task."""
        wd = self.wd
        W = len(self._workers)
        results = []
        mode = 0
        if W > 1 and len(tasks) > 0:
            mode = wd.choose("sched.mode", 4)  # 0 round-robin-ish fifo, 1 uniform, 2 skew, 3 slow-worker
        hog = wd.choose("sched.hog", W) if mode == 2 else None
        slow = wd.choose("sched.slow", W) if mode == 3 else None
        slow_factor = [10, 100, 1000][wd.choose("sched.slowx", 3)] if mode == 3 else 1
        if mode == 2:
            wd.faults["sched.skew"] += 1
        elif mode == 1:
            wd.faults["sched.shuffle"] += 1
        elif mode == 3:
            wd.faults["sched.slow_worker"] += 1
        t_parent = wd.now
        fail_at, fail_after = None, False
        if wd.task_fail_one_in and len(tasks) > 1 and wd.choose("fault.task_fail", wd.task_fail_one_in) == 0:
            fail_at = wd.choose("fault.task_fail_index", len(tasks))
            fail_after = bool(wd.choose("fault.task_fail_after_work", 2))
        for ti, blob in enumerate(tasks):
            if mode == 0:
                w = ti % W
            elif mode == 1:
                w = wd.choose("sched.worker", W)
            elif mode == 2:
                # the hog takes the task 7 times out of 8
                w = hog if wd.choose("sched.hogtakes", 8) else wd.choose("sched.worker", W)
            else:
                # earliest-free worker takes it (what an honest pool does), one worker being slow
                w = min(range(W), key=lambda j: (self._workers[j].free_at, j))
            ctx = self._workers[w]
            prev = wd.switch(ctx)
            wd.now = max(ctx.free_at, t_parent) + wd.dispatch_cost
            n_items = n_items_of(ti)
            wd.log("task.start", self.index, ti, ctx.name, n_items, repr(wd.now))
            wd.chunk = (self.index, ti, ctx.name)
            try:
                fn, args = _loads(blob)
                try:
                    if ti == fail_at and not fail_after:
                        wd.faults["pool.task_failed"] += 1
                        wd.log("task.fail", self.index, ti, "before-work")
                        raise InjectedWorkerFailure(f"injected: task {ti} of pool {self.index} failed in its worker")
                    value = fn(args)
                    if ti == fail_at:
                        wd.faults["pool.task_failed"] += 1
                        wd.log("task.fail", self.index, ti, "after-work")
                        raise InjectedWorkerFailure(f"injected: task {ti} of pool {self.index} failed in its worker (result lost)")
                    ok = True
                except HarnessError:
                    raise
                except Exception as e:  # what the real worker does: ship the exception back
                    if getattr(e, "verif_passthrough", False):
                        raise
                    value, ok = e, False
                cost = wd.path_cost * max(1, n_items) * (slow_factor if w == slow else 1)
                wd.sim_seconds += cost
                wd.now += cost
                if ok:
                    value = _loads(_dumps(value))
            finally:
                ctx.free_at = wd.now
                ctx.tasks_run += 1
                wd.chunk = None
                wd.switch(prev)
            results.append((ok, value))
            if n_items == 1:
                wd.probes["pool.task_of_one_item"] += 1
        if any(c.tasks_run >= 2 for c in self._workers):
            wd.probes["pool.worker_ran_2plus_tasks"] += 1
        if W > 1 and tasks and any(c.tasks_run == 0 for c in self._workers):
            wd.probes["pool.idle_worker"] += 1
        wd.now = max([t_parent] + [c.free_at for c in self._workers]) + wd.dispatch_cost
        return results

    def _map_async(self, func, iterable, mapper, chunksize, callback, error_callback):
        if self._closed:
            raise ValueError("Pool not running")
        wd = self.wd
        if not hasattr(iterable, "__len__"):
            iterable = list(iterable)
        n = len(iterable)
        check_request(n, "pool map")
        if chunksize is None:
            chunksize, extra = divmod(n, len(self._workers) * 4)
            if extra:
                chunksize += 1
        if n == 0:
            chunksize = 0
        it = iter(iterable)
        batches = []
        while True:
            x = tuple(itertools.islice(it, chunksize))
            if not x:
                break
            batches.append(x)
        wd.log("map_async", self.index, n, chunksize, len(batches))
        wd.probes["pool.map_calls"] += 1
        if n and n % (4 * len(self._workers)):
            wd.probes["pool.n_not_multiple_of_4W"] += 1
        if n and n < len(self._workers):
            wd.probes["pool.n_lt_W"] += 1
        # each task is pickled separately, at submit time, exactly as the task handler thread does
        blobs = [_dumps((mapper, (func, b))) for b in batches]
        results = self._run_tasks(blobs, lambda ti: len(batches[ti]))
        flat = []
        error = None
        for ok, value in results:
            if ok:
                flat.extend(value)
            elif error is None:
                error = value
        if error is not None:
            if error_callback is not None:
                error_callback(error)
            return _Result(error=error)
        if callback is not None:
            callback(flat)
        return _Result(value=flat)

    def map_async(self, func, iterable, chunksize=None, callback=None, error_callback=None):
        return self._map_async(func, iterable, _mapstar, chunksize, callback, error_callback)

    def map(self, func, iterable, chunksize=None):
        return self._map_async(func, iterable, _mapstar, chunksize, None, None).get()

    def starmap_async(self, func, iterable, chunksize=None, callback=None, error_callback=None):
        return self._map_async(func, iterable, _starmapstar, chunksize, callback, error_callback)

    def starmap(self, func, iterable, chunksize=None):
        return self._map_async(func, iterable, _starmapstar, chunksize, None, None).get()

    def imap(self, func, iterable, chunksize=1):
        return iter(self._map_async(func, list(iterable), _mapstar, chunksize, None, None).get())

    def imap_unordered(self, func, iterable, chunksize=1):
        return self.imap(func, iterable, chunksize)

    def apply_async(self, func, args=(), kwds={}, callback=None, error_callback=None):
        if self._closed:
            raise ValueError("Pool not running")
        wd = self.wd
        wd.log("apply_async", self.index)
        blob = _dumps((_apply_star, (func, tuple(args), dict(kwds))))
        (ok, value), = self._run_tasks([blob], lambda ti: 1)
        if not ok:
            if error_callback is not None:
                error_callback(value)
            return _Result(error=value)
        if callback is not None:
            callback(value)
        return _Result(value=value)

    def apply(self, func, args=(), kwds={}):
        return self.apply_async(func, args, kwds).get()


def _apply_star(packed):
    func, args, kwds = packed
    return func(*args, **kwds)
