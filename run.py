#!/venv/bin/python
"""Single entry point of the verification machinery (see DESIGN.md section 10).

  run.py check <ID> [--tier quick|thorough] [--worlds N] [--seed S]
  run.py replay <file> [--quiet]        exit 1 if the recorded violation is reproduced, 0 otherwise
  run.py digest <ID> <first> <count>    print outcome digests (used by the determinism self-test)
  run.py one <ID> <seed>                run one world verbosely
  run.py selftest [--fast]              imports, determinism, pool fidelity
"""
import os
import sys

# re-exec once with a fixed hash seed so that set/dict iteration order of str keys cannot differ between runs
if os.environ.get("PYTHONHASHSEED") is None:
    os.environ["PYTHONHASHSEED"] = "0"
    os.execv(sys.executable, [sys.executable] + sys.argv)

HERE = os.path.dirname(os.path.abspath(__file__))
if HERE not in sys.path:
    sys.path.insert(0, HERE)

from simkit.bootstrap import bootstrap  # noqa: E402

bootstrap()

import argparse  # noqa: E402
import json  # noqa: E402


def main():
    ap = argparse.ArgumentParser()
    sub = ap.add_subparsers(dest="cmd", required=True)
    c = sub.add_parser("check")
    c.add_argument("pid")
    c.add_argument("--tier", default=os.environ.get("VERIF_TIER", "quick"), choices=["quick", "thorough"])
    c.add_argument("--worlds", type=int, default=None)
    c.add_argument("--seed", type=int, default=int(os.environ.get("VERIF_SEED", "0")))
    c.add_argument("--workers", type=int, default=None)
    r = sub.add_parser("replay")
    r.add_argument("path")
    r.add_argument("--quiet", action="store_true")
    d = sub.add_parser("digest")
    d.add_argument("pid")
    d.add_argument("first", type=int)
    d.add_argument("count", type=int)
    d.add_argument("--tier", default="quick")
    d.add_argument("--order", default="forward", choices=["forward", "reverse"])
    o = sub.add_parser("one")
    o.add_argument("pid")
    o.add_argument("seed", type=int)
    o.add_argument("--tier", default="quick")
    s = sub.add_parser("selftest")
    s.add_argument("--fast", action="store_true")
    a = ap.parse_args()

    from simkit import harness

    if a.cmd == "check":
        sys.exit(harness.run_check(a.pid, a.tier, a.seed, n_worlds=a.worlds, workers=a.workers))
    if a.cmd == "replay":
        ok, same, out = harness.replay_file(a.path, quiet=a.quiet)
        sys.exit(1 if ok else 0)
    if a.cmd == "digest":
        mod = harness.load_prop_bootstrapped(a.pid)
        idx = list(range(a.first, a.first + a.count))
        if a.order == "reverse":
            idx.reverse()
        for i in idx:
            sc = mod.generate(harness.world_seed(0, i), a.tier)
            out = harness.run_world(a.pid, sc)
            print(i, harness.outcome_digest(out), "HE" if out["harness_error"] else "ok")
        sys.exit(0)
    if a.cmd == "one":
        mod = harness.load_prop_bootstrapped(a.pid)
        sc = mod.generate(a.seed, a.tier)
        print(json.dumps(sc, indent=1))
        out = harness.run_world(a.pid, sc)
        for k in ("violations", "errors", "info", "probes", "faults", "harness_error", "digest", "sim_seconds", "wall"):
            print(k, "=", json.dumps(out.get(k), default=str)[:3000])
        sys.exit(0)
    if a.cmd == "selftest":
        from selftest import selftest

        sys.exit(selftest.main(fast=a.fast))


if __name__ == "__main__":
    main()
