"""C17 - payoffs and underlyings are pure functions of the path (history clause; static identities as monitors).

Workload: pricing SESSIONS. One product object is priced 1-3 times through the real engines (standard; multilevel
fixed-level with fine/coarse pairs), with processes in the logarithmic or the identity representation, single-process
or through the simulated pool. The processes are scripted and hand out explicit multi-point paths (values near the
strikes / barriers / default thresholds so that events do happen).
Oracle: a pristine deep copy of the product is taken before the session; for every path that reached an engine the
stored payoff must equal df * the value a fresh copy of the pristine product gives on that very path in the
representation of the process that produced it - separately for the fine and the coarse component in the multilevel
engine. In-run monitors on every path: representation consistency of the underlying, parity / combination identities,
default time definition, linear notional.
"""
import copy
import hashlib

import numpy as np

from simkit.world import sub_rng, HarnessError
from . import stubs
from . import builders as B

ID = "C17"
RULE = ("one world per seed: product (call/put/forward/digital/call spread/butterfly/4 barrier types/CDS on a default "
        "time, on the n-th default and on the k-th name's default/Asian call or put on the underlying's own schedule/"
        "multi-asset/rates; strikes, barriers, thresholds near the paths), 2-5 path dates, session of 1-3 runs of the SAME product "
        "object, each run = (engine standard | multilevel fixed-level, representation LOG | IDENTITY, nb_of_processes, "
        "n paths); explicit paths from sha256(seed). non-trivial = session with >=2 runs or a path-dependent payoff whose "
        "event happened on some but not all paths; distinct = hash(product kind, run kinds, event pattern)")
REAL = ["rpylib.product.{payoff,underlying,product}", "rpylib.montecarlo.path (MCPath, MLMCPath)",
        "rpylib.montecarlo.standard.engine", "rpylib.montecarlo.multilevel.engine", "rpylib.montecarlo.statistic"]
STUB = ["processes -> scenarios.stubs.ScriptedPathProcess / ScriptedPathCoupling (explicit paths)",
        "pathos pool -> SimPool", "clock/pid/entropy/RNG seams", "gmpy2.qdiv, tqdm"]
ASSUMPTIONS = ["the reference evaluates the repo's own payoff code on a pristine copy: it decides the history clause "
               "(no leak from earlier paths / earlier processes), not the payoff formulas themselves; the formulas are "
               "covered only by the monitor identities on the paths produced"]
TIERS = {
    "quick": {"worlds": 8000, "wall": 500, "shrink_budget": 60,
              "required_probes": ["c17.run_completed", "c17.barrier_event_mixed", "c17.reuse_log_then_identity",
                                  "c17.multilevel_run", "c17.pool_run", "c17.default_happened", "c17.default_mixed",
                                  "c17.stochastic_time_grid", "c17.shared_control_variates", "c17.asian_run",
                                  "c17.kth_name_default_run", "c17.shared_control_variates_multilevel",
                                  "c17.run_interrupted_then_session_continues"]},
    "thorough": {"worlds": 200000, "wall": 2900, "shrink_budget": 150,
                 "required_probes": ["c17.run_completed", "c17.barrier_event_mixed", "c17.reuse_log_then_identity",
                                     "c17.multilevel_run", "c17.pool_run", "c17.default_happened",
                                     "c17.fine_coarse_events_differ"]},
}

KINDS = ["call", "put", "forward", "digital_call", "digital_put", "callspread", "butterfly",
         "barrier", "barrier", "barrier", "cds", "ntd", "ntd", "multi", "multi", "rates", "asian", "asian", "cdsk"]


def generate(seed, tier="quick"):
    r = sub_rng(seed, "c17.scenario")
    kind = r.choice(KINDS)
    x0 = 100.0
    if kind == "rates":
        x0 = 0.03
    m = r.choice([2, 3, 5])
    T = r.choice([0.5, 1.0])
    spec = {"kind": kind, "maturity": T, "strike": round(x0 * r.uniform(0.9, 1.1), 4), "notional": r.choice([1.0, 1.0, 2.0]),
            "dates": m, "width": 5.0}
    if kind == "barrier":
        bt = r.choice(["UP_AND_IN", "UP_AND_OUT", "DOWN_AND_IN", "DOWN_AND_OUT"])
        spec.update(barrier_type=bt, cp=r.choice(["CALL", "PUT"]),
                    barrier=round(x0 * (r.uniform(1.02, 1.12) if bt.startswith("UP") else r.uniform(0.88, 0.98)), 4))
    if kind == "cds":
        spec.update(default_level=r.choice([-0.05, -0.1]), recovery=0.4, spread=0.01)
    if kind in ("cds", "ntd", "cdsk"):
        # construction history: another CDS of the same maturity on ANOTHER discount curve is built (and dropped) first
        spec["decoy_cds"] = r.random() < 0.4
    if kind == "multi":
        d = r.choice([2, 3])
        spec.update(names=d, sub=r.choice(["logspot", "performances_rainbow", "max_performances", "mean", "nthspot", "indicators",
                                           "performances_rainbow", "coupon"]),
                    nth=r.randrange(1, d + 1), cp=r.choice(["CALL", "PUT"]))
    if kind == "rates":
        d = r.choice([2, 3])
        spec.update(names=d, sub=r.choice(["bond", "cap", "swaption", "ratchet"]))
    if kind in ("ntd", "cdsk"):
        d = r.choice([2, 3])
        spec.update(names=d, default_levels=[r.choice([-0.05, -0.08, -0.12]) for _ in range(d)], index=r.randrange(1, d + 1),
                    recovery=0.4, spread=0.01)
    if kind == "asian":
        # averaging dates come from the underlying's own schedule (Asian.compute_times_grid)
        disc = r.choice(["MONTHLY", "MONTHLY", "WEEKLY", "YEARLY"])
        if disc == "YEARLY":
            spec["maturity"] = T = r.choice([2.0, 3.0])
        spec.update(disc=disc, cp=r.choice(["CALL", "PUT"]))
    nruns = r.choice([1, 2, 2, 3])
    runs = []
    for _ in range(nruns):
        eng = r.choice(["standard", "standard", "mlmc"])
        rep = "LOG" if kind in ("cds", "ntd", "cdsk") else ("IDENTITY" if kind == "rates" else r.choice(["LOG", "IDENTITY"]))
        runs.append({"engine": eng, "rep": rep, "nproc": r.choice([1, 1, 2, 4]), "n": r.choice([2, 3, 5, 9, 20]),
                     "max_level": r.choice([1, 2]),
                     # the engine's option to keep statistics of the spot itself next to those of the payoff
                     "spot_stats": eng == "standard" and kind not in ("multi", "rates", "ntd", "cdsk") and r.random() < 0.3})
    if nruns >= 2 and kind in ("call", "put", "forward", "digital_call", "digital_put", "callspread", "butterfly") and r.random() < 0.35:
        # a SECOND product built on the SAME underlying object (as a book of options on one underlying is): some runs of
        # the session price the sibling instead, the first of them possibly in the identity representation after a
        # logarithmic run of the main product
        spec["sibling"] = r.choice(["put", "forward", "call"])
        for x in runs:
            x["which"] = r.choice(["P", "Q"])
        runs[0]["which"], runs[-1]["which"] = "P", "Q"
    if nruns >= 2 and r.random() < 0.12:
        # fault: a run of the session (not the last) is interrupted - the simulation of one of its samples fails - and
        # the session goes on with the same product (and control) objects
        k = r.randrange(nruns - 1)
        runs[k]["fail_at"] = r.randrange(0, 2 * runs[k]["n"])
    vol = r.choice([0.03, 0.08, 0.15])
    return {"world_seed": seed, "product": spec, "x0": x0, "runs": runs, "vol": vol, "df": r.choice([1.0, 0.9]),
            "drift": r.choice([0.0, 0.0, 0.08, -0.15]), "jitter": r.random() < 0.4,
            "control": (r.choice(["spot_forward", "logspot_forward", "logspot_forward"]) if (kind not in ("multi", "rates", "ntd", "cds", "cdsk") and r.random() < 0.35)
                        else ("same_underlying_sum" if (kind == "multi" and spec["sub"] in ("performances_rainbow", "logspot", "indicators") and r.random() < 0.6)
                              # basket default swap with a single-name CDS as control (as the first-to-default benchmark does)
                              else ("kth_name_cds" if (kind == "ntd" and r.random() < 0.5) else None))),
            "pseed": r.randrange(10 ** 9), "jump_prob": r.choice([0.0, 0.3, 0.6]),
            "env": dict({"cpu_count": 4, "path_cost": 1e-5, "spawn_cost": 1e-4},
                        **({"task_fail_one_in": 3} if (any(x["nproc"] != 1 for x in runs) and r.random() < 0.1) else {}))}


def shrink_candidates(sc):
    def mod(**kw):
        c = copy.deepcopy(sc)
        c.update(kw)
        return c

    if len(sc["runs"]) > 1:
        for i in range(len(sc["runs"])):
            yield mod(runs=sc["runs"][:i] + sc["runs"][i + 1:])
    for i, run in enumerate(sc["runs"]):
        if run["nproc"] != 1:
            c = mod()
            c["runs"][i]["nproc"] = 1
            yield c
        if run["n"] > 2:
            c = mod()
            c["runs"][i]["n"] = max(2, run["n"] // 2)
            yield c
        if run["engine"] == "mlmc" and run["max_level"] > 1:
            c = mod()
            c["runs"][i]["max_level"] = 1
            yield c
    if sc["product"]["dates"] > 2 and sc["product"]["kind"] != "barrier":
        c = mod()
        c["product"]["dates"] = 2
        yield c
    if sc["df"] != 1.0:
        yield mod(df=1.0)
    if sc["product"]["notional"] != 1.0:
        c = mod()
        c["product"]["notional"] = 1.0
        yield c


def _paths(sc, count, m, log, rng):
    """explicit paths: (diffusion component, pure-jump component), additive in the process representation"""
    out = []
    x0 = sc["x0"]
    names = sc["product"].get("names")

    def one():
        vol_ = sc["vol"] * (1.0 if m <= 5 else (4.0 / (m - 1)) ** 0.5)  # many averaging dates: same terminal dispersion
        steps = [rng.gauss(0.0, vol_) for _ in range(m - 1)]
        jumps = [(-rng.uniform(0.02, 0.2) if rng.random() < 0.5 else rng.uniform(0.01, 0.1)) if rng.random() < sc["jump_prob"] else 0.0
                 for _ in range(m - 1)]
        d = np.concatenate(([0.0], np.cumsum(steps)))
        j = np.concatenate(([0.0], np.cumsum(jumps)))
        if not log:
            # identity representation: additive moves in spot units (kept positive)
            d, j = x0 * d, x0 * 0.5 * j
            while np.min(x0 + d + j) < 0.25 * x0:  # keep the spot path positive (a log-spot control needs it)
                d, j = 0.5 * d, 0.5 * j
        return d, j

    T = sc["product"]["maturity"]
    for _ in range(count):
        times = None
        if sc.get("jitter") and m > 2:
            # stochastic time grid: same number of points, other interior times (as jump-time simulation produces)
            times = [0.0] + sorted(rng.uniform(0.02 * T, 0.98 * T) for _ in range(m - 2)) + [T]
        if names:
            rows = [one() for _ in range(names)]
            out.append(([r_[0].tolist() for r_ in rows], [r_[1].tolist() for r_ in rows], times))
        else:
            d, j = one()
            out.append((d.tolist(), j.tolist(), times))
    return out


def _evaluate(pristine, rep, times, path, jump_path):
    from rpylib.process.process import ProcessRepresentation

    p = copy.deepcopy(pristine)
    p.update(ProcessRepresentation.LOG if rep == "LOG" else ProcessRepresentation.IDENDITY)
    path = np.asarray(path, dtype=float)
    kept = path.copy()
    uv = p.underlying_value(times, path, jump_path)
    val = np.asarray(p(uv), dtype=float)
    if not np.array_equal(kept, path, equal_nan=True):
        _evaluate.path_modified = type(p.payoff_underlying).__name__
        path[...] = kept
    return val, p


def execute(wd, sc):
    from rpylib.montecarlo.configuration import ConfigurationStandard, ConfigurationMultiLevel
    from rpylib.montecarlo.standard.engine import Engine as StdEngine
    from rpylib.montecarlo.multilevel.engine import Engine as MLEngine
    from rpylib.process.process import ProcessRepresentation

    V, errors = [], []
    stubs.prepare_stub_world(wd)
    spec = sc["product"]
    m, T, df = spec["dates"], spec["maturity"], sc["df"]
    times = np.linspace(0.0, T, m)
    model_for_cds = stubs.StubModel(df_value=1.0)
    model_for_cds.df = lambda t: float(np.exp(-0.03 * t))
    if spec.get("decoy_cds"):
        from rpylib.product.payoff import CDS as _CDS0

        _CDS0(recovery_rate=0.25, spread=0.02, maturity=T, discounting=lambda t: float(np.exp(-0.07 * t)))
        wd.probes["c17.another_cds_built_first"] += 1
    if spec["kind"] == "asian":
        from rpylib.product.payoff import Vanilla, PayoffType
        from rpylib.product.product import Product
        from rpylib.product.underlying import Asian, Discretisation

        product = Product(payoff_underlying=Asian(Discretisation[spec["disc"]]),
                          payoff=Vanilla(strike=spec["strike"], payoff_type=PayoffType[spec["cp"]]), maturity=T,
                          notional=spec["notional"])
        times = np.asarray(product.times_grid().grid, dtype=float)  # the product's own averaging dates
        m = len(times)
    elif spec["kind"] in ("ntd", "cdsk"):
        from rpylib.product.payoff import CDS
        from rpylib.product.product import Product
        from rpylib.product.underlying import NthDefaultTimes, DefaultTimeNthUnderlying

        if spec["kind"] == "ntd":
            und_ = NthDefaultTimes(default_levels=list(spec["default_levels"]), index=spec["index"])
        else:
            und_ = DefaultTimeNthUnderlying(default_levels=list(spec["default_levels"]), underlying_index=spec["index"])
        product = Product(payoff_underlying=und_,
                          payoff=CDS(recovery_rate=spec["recovery"], spread=spec["spread"], maturity=T,
                                     discounting=model_for_cds.df), maturity=T, notional=spec["notional"])
    elif spec["kind"] == "multi":
        from rpylib.product.payoff import Vanilla, PayoffType, Rainbow, Forward, PayoffOnTheFly
        from rpylib.product.product import Product
        from rpylib.product import underlying as U

        d_ = spec["names"]
        spots0 = [sc["x0"]] * d_
        sub = spec["sub"]
        if sub == "logspot":
            und, pay = U.LogSpot(), PayoffOnTheFly(_sum_of)
        elif sub == "performances_rainbow":
            w = [0.5, 0.3, 0.2][:d_]
            und, pay = U.Performances(spots0), Rainbow(weights=[x / sum(w) for x in w], strike=1.0,
                                                       payoff_type=PayoffType[spec.get("cp", "CALL")])
        elif sub == "max_performances":
            und, pay = U.MaximumOfPerformances(spots0), Vanilla(strike=1.0, payoff_type=PayoffType.CALL)
        elif sub == "mean":
            und, pay = U.Mean(), Vanilla(strike=spec["strike"], payoff_type=PayoffType.PUT)
        elif sub == "coupon":
            from rpylib.product.payoff import FixedCoupon

            und, pay = U.Spot(), FixedCoupon(coupon=0.05 * sc["x0"])
        elif sub == "nthspot":
            und, pay = U.NthSpot(spec["nth"]), Vanilla(strike=spec["strike"], payoff_type=PayoffType.CALL)
        else:
            und, pay = U.Indicators([0.97 * sc["x0"]] * d_), PayoffOnTheFly(_sum_of)
        product = Product(payoff_underlying=und, payoff=pay, maturity=T, notional=spec["notional"])
    elif spec["kind"] == "rates":
        from rpylib.product.payoff import Bond, Cap, Swaption, Ratchet
        from rpylib.product.product import Product
        from rpylib.product.underlying import Libors

        d_ = spec["names"]
        rates0 = np.array([sc["x0"]] * d_)
        deltas = np.array([0.5] * d_)
        sub = spec["sub"]
        if sub == "bond":
            pay = Bond(underlying_rates=rates0, deltas=deltas)
        elif sub == "cap":
            pay = Cap(underlying_rates=rates0, deltas=deltas, strike=0.98 * sc["x0"])
        elif sub == "swaption":
            pay = Swaption(underlying_rates=rates0, deltas=deltas, strike=sc["x0"])
        else:
            pay = Ratchet(deltas=deltas, funding_gearing=1.0, funding_margin=0.0, structured_spread=0.001,
                          structured_increment=0.002, first_rate=0.4 * sc["x0"])  # below delta * (rate + spread): the ratchet moves on every path
        product = Product(payoff_underlying=Libors(), payoff=pay, maturity=T, notional=spec["notional"])
    else:
        product = B.build_product(spec, model_for_cds)
    if spec["kind"] not in ("cds", "ntd", "cdsk", "multi", "rates", "asian") and m > 2:
        # path observed on m dates but payoff on the terminal spot: Spot underlying with an m-point grid
        from rpylib.product.underlying import Spot

        product.payoff_underlying = Spot()
    pristine = copy.deepcopy(product)
    sibling, pristine_sibling = None, None
    if spec.get("sibling"):
        from rpylib.product.payoff import Vanilla as _V, PayoffType as _PT, Forward as _F2
        from rpylib.product.product import Product as _P2

        k2 = round(0.97 * sc["x0"], 4)
        pay2 = {"put": _V(strike=k2, payoff_type=_PT.PUT), "call": _V(strike=k2, payoff_type=_PT.CALL), "forward": _F2(strike=k2)}[spec["sibling"]]
        sibling = _P2(payoff_underlying=product.payoff_underlying, payoff=pay2, maturity=T, notional=spec["notional"])  # shared underlying
        pristine_sibling = copy.deepcopy(sibling)
    cv_shared, cv_pristine = None, None
    if sc.get("control"):
        # ONE ControlVariates object (and one control product) shared by every run of the session
        from rpylib.product.payoff import Forward as _Fwd
        from rpylib.product.product import Product as _Prod, ControlVariates as _CV
        from rpylib.product.underlying import Spot as _Spot, LogSpot as _LogSpot

        if sc["control"] == "spot_forward":
            cprod = _Prod(payoff_underlying=_Spot(), payoff=_Fwd(strike=0.9 * sc["x0"]), maturity=T)
        elif sc["control"] == "kth_name_cds":
            from rpylib.product.payoff import CDS as _CDS1
            from rpylib.product.underlying import DefaultTimeNthUnderlying as _DTN

            kname = 1 + (spec["index"] % spec["names"])
            cprod = _Prod(payoff_underlying=_DTN(default_levels=list(spec["default_levels"]), underlying_index=kname),
                          payoff=_CDS1(recovery_rate=spec["recovery"], spread=spec["spread"], maturity=T, discounting=model_for_cds.df),
                          maturity=T)
        elif sc["control"] == "same_underlying_sum":
            # control on the SAME underlying type as the priced product: ControlVariates passes the product's underlying
            # value through instead of recomputing it (imply_from_payoff_underlying)
            from rpylib.product.payoff import PayoffOnTheFly as _Fly

            cprod = _Prod(payoff_underlying=copy.deepcopy(pristine.payoff_underlying), payoff=_Fly(_sum_of), maturity=T)
        else:
            cprod = _Prod(payoff_underlying=_LogSpot(), payoff=_Fwd(strike=float(np.log(0.9 * sc["x0"]))), maturity=T)
        cv_pristine = copy.deepcopy(cprod)
        cv_shared = _CV([cprod], [0.123])
    rng = sub_rng(sc["pseed"], "c17.paths")
    kind = spec["kind"]
    pattern = []
    reps_seen = []

    def add(sig, detail):
        if not any(v["sig"] == sig for v in V):
            V.append({"sig": sig, "oracle": sig.split("|")[0], "detail": detail})

    for ri, run in enumerate(sc["runs"]):
        log = run["rep"] == "LOG"
        base = float(np.log(sc["x0"])) if log else sc["x0"]
        drift = sc.get("drift", 0.0) * (1.0 if log else sc["x0"])
        n = run["n"]
        need = n if run["engine"] == "standard" else n * (1 + 2 * run["max_level"])
        wd.stub_paths = _paths(sc, need + 4, m, log, rng)
        wd.stub_serial = 0
        use_sibling = sibling is not None and run.get("which") == "Q"
        prod_run, pristine_run = (sibling, pristine_sibling) if use_sibling else (product, pristine)
        if use_sibling:
            wd.probes["c17.sibling_product_on_the_same_underlying_priced"] += 1
        wd.stub_fail_at = run.get("fail_at")
        s0 = len(wd.samples)
        wd.run_index = ri
        cls = f"payoff={kind}{'/' + spec['barrier_type'] if kind == 'barrier' else ''}|engine={run['engine']}"
        hist = "first-run" if ri == 0 else f"after-{sc['runs'][ri - 1]['rep']}-run"
        try:
            if run["engine"] == "standard":
                proc = stubs.ScriptedPathProcess(base, times, log, df_value=df, drift=drift)
                cfg = ConfigurationStandard(mc_paths=n, nb_of_processes=run["nproc"], control_variates=cv_shared,
                                            activate_spot_statistics=bool(run.get("spot_stats")))
                if run.get("spot_stats"):
                    wd.probes["c17.spot_statistics_active"] += 1
                if cv_shared is not None:
                    wd.probes["c17.shared_control_variates"] += 1
                stats = StdEngine(cfg, proc).price(prod_run)
            else:
                cp = stubs.ScriptedPathCoupling(base, times, log, df_value=df, names=spec.get("names"), drift=drift)
                cfg = ConfigurationMultiLevel(initial_level=0, maximum_level=run["max_level"], initial_mc_paths=n,
                                              nb_of_processes=run["nproc"], control_variates=cv_shared)
                if cv_shared is not None:
                    wd.probes["c17.shared_control_variates_multilevel"] += 1
                stats = MLEngine(cfg, cp).price_with_constant_mc_paths_and_level(prod_run)
                wd.probes["c17.multilevel_run"] += 1
        except HarnessError:
            raise
        except Exception as e:
            errors.append({"kind": type(e).__name__, "msg": f"run {ri}: " + str(e)[:160]})
            wd.probes["c17.run_raised"] += 1
            if type(e).__name__ in ("InjectedPathFailure", "InjectedWorkerFailure"):
                wd.probes["c17.run_interrupted_then_session_continues"] += 1
                continue
            # did the ENGINE fail, or has the product no value on this (valid) path at all?  Evaluate a fresh copy of the
            # pristine product directly on the first path scripted for this run.
            d0, j0, t0 = wd.stub_paths[0]
            pt0 = np.asarray(t0 if t0 is not None else times, dtype=float)
            j0 = np.asarray(j0, dtype=float)
            p0 = base + drift * pt0 + np.asarray(d0, dtype=float) + j0
            try:
                _evaluate(pristine_run, run["rep"], pt0, p0, j0)
            except Exception as e2:
                add(f"C17.value|a product built from the library's own payoff and underlying has no value on a valid path: evaluation raises|{type(e2).__name__}|underlying={type(pristine.payoff_underlying).__name__}|rep={run['rep']}",
                    {"run": ri, "error": str(e2)[:200], "times": pt0.tolist(), "path": np.asarray(p0).tolist()})
            continue
        wd.probes["c17.run_completed"] += 1
        if kind == "asian":
            wd.probes["c17.asian_run"] += 1
        if kind == "cdsk":
            wd.probes["c17.kth_name_default_run"] += 1
        if run["nproc"] != 1:
            wd.probes["c17.pool_run"] += 1
        if ri > 0 and sc["runs"][ri - 1]["rep"] == "LOG" and run["rep"] == "IDENTITY":
            wd.probes["c17.reuse_log_then_identity"] += 1
        reps_seen.append(run["rep"])
        recs = wd.samples[s0:]
        # ---- stored payoffs, in the order the paths reached the path manager --------------------------
        if run["engine"] == "standard":
            stored = np.asarray(stats._payoff_statistics.stats, dtype=float)[:, 0]
            groups = [(None, recs, stored, None)]
            if cv_shared is not None:
                # the stored control samples must be the control product's value on each path, whatever the session did before
                cstore = np.asarray(stats._control_variates_statistics.stats, dtype=float).reshape(len(stored), -1)[:, 0]
                if len(recs) == len(cstore):
                    for i, rec_ in enumerate(recs):
                        ptimes_ = np.asarray(rec_["times"], dtype=float)
                        path_ = base + drift * ptimes_ + np.asarray(rec_["diff"]) + np.asarray(rec_["jump"])
                        cval, _ = _evaluate(cv_pristine, run["rep"], ptimes_, path_, np.asarray(rec_["jump"]))
                        exp_c = float(np.ravel(cval)[0]) * df
                        if not np.isclose(cstore[i], exp_c, rtol=1e-12, atol=1e-12 * (1 + abs(exp_c)), equal_nan=True):
                            anylog = any(r_["rep"] == "LOG" for r_ in sc["runs"][:ri])
                            hist2 = "first-run" if ri == 0 else ("after-a-LOG-run" if anylog else "after-IDENTITY-runs")
                            add(f"C17.history|stored control-variate payoff differs from the value of a fresh copy of the control product on the same path|{sc['control']}|{hist2}|rep={run['rep']}",
                                {"run": ri, "index": i, "stored": float(cstore[i]), "fresh_copy": exp_c})
                            break
        else:
            groups = []
            for lvl in range(run["max_level"] + 1):
                lrecs = [x for x in recs if x["level"] == lvl]
                f = np.asarray(stats.simulation_payoff_with_fine_process(level=lvl, no_control_variates=True), dtype=float)
                c = np.asarray(stats.simulation_payoff_with_coarse_process(level=lvl, no_control_variates=True), dtype=float)
                groups.append((lvl, lrecs, f, c))
                if cv_shared is not None:
                    # stored control samples of the level: fine (and coarse) value of the control product on the fine (coarse)
                    # path of the same sample - not on the other component's path, not on an earlier sample's
                    craw = np.asarray(stats.mc_statistics[lvl]._control_variates_statistics.stats, dtype=float)
                    if len(lrecs) == craw.shape[0]:
                        for i, rec_ in enumerate(lrecs):
                            ptimes_ = np.asarray(rec_["times"], dtype=float)
                            bad = None
                            for ci in ((0,) if lvl == 0 else (0, 1)):
                                d_ = np.asarray(rec_["diff"])[ci] if lvl > 0 else np.asarray(rec_["diff"])
                                j_ = np.asarray(rec_["jump"])[ci] if lvl > 0 else np.asarray(rec_["jump"])
                                path_ = base + drift * ptimes_ + d_ + j_
                                cval, _ = _evaluate(cv_pristine, run["rep"], ptimes_, path_, j_)
                                exp_c = float(np.ravel(cval)[0]) * df
                                got_c = float(np.ravel(craw[i, 0, 0, ci] if lvl > 0 else craw[i, 0, 0])[0])
                                if not np.isclose(got_c, exp_c, rtol=1e-12, atol=1e-12 * (1 + abs(exp_c)), equal_nan=True):
                                    bad = (ci, got_c, exp_c)
                                    break
                            if bad:
                                comp_ = "single" if lvl == 0 else ("fine" if bad[0] == 0 else "coarse")
                                add(f"C17.history|stored control-variate payoff differs from the value of a fresh copy of the control product on the same path|{sc['control']}|{comp_}|engine=mlmc|rep={run['rep']}",
                                    {"run": ri, "level": lvl, "index": i, "stored": bad[1], "fresh_copy": bad[2]})
                                break
        events = []
        for (lvl, lrecs, fine_store, coarse_store) in groups:
            if len(lrecs) != len(fine_store):
                add(f"C17.count|number of stored payoffs differs from the number of paths that reached the engine|{cls}",
                    {"run": ri, "level": lvl, "paths": len(lrecs), "stored": int(len(fine_store))})
                continue
            for i, rec_ in enumerate(lrecs):
                diffs, jmps = np.asarray(rec_["diff"]), np.asarray(rec_["jump"])
                comps = [(0, fine_store)] if (lvl is None or lvl == 0) else [(0, fine_store), (1, coarse_store)]
                ev_pair = []
                for ci, store in comps:
                    pair = len(comps) == 2
                    d = diffs[ci] if pair else diffs
                    j = jmps[ci] if pair else jmps
                    ptimes = np.asarray(rec_["times"], dtype=float)  # the path's own time grid
                    if sc.get("jitter") and not np.array_equal(ptimes, times):
                        wd.probes["c17.stochastic_time_grid"] += 1
                    path = base + drift * ptimes + d + j
                    _evaluate.path_modified = None
                    val, pobj = _evaluate(pristine_run, run["rep"], ptimes, path, j)
                    if _evaluate.path_modified:
                        add(f"C17.history|evaluating a product changes the path it was given (whoever reads the path next gets other values)|underlying={_evaluate.path_modified}|rep={run['rep']}",
                            {"run": ri, "index": i})
                    exp = float(np.ravel(val)[0]) * df
                    got = float(store[i])
                    ev = getattr(pobj.payoff, "barrier_event", None)
                    ev_pair.append(ev)
                    if kind in ("cds", "ntd", "cdsk"):
                        uv = pobj.payoff_underlying.value(ptimes, path, j)
                        if np.isfinite(uv):
                            wd.probes["c17.default_happened"] += 1
                        events.append(bool(np.isfinite(uv)))
                        # the value from the product's OWN terms (recovery, spread, maturity, its discount curve)
                        dfc = model_for_cds.df
                        r_ = -np.log(dfc(1.0))
                        dleg = 0.0 if uv > T else (1.0 - spec["recovery"]) * dfc(uv)
                        fleg = spec["spread"] * (1.0 - dfc(min(T, uv))) / r_
                        own = spec["notional"] * (dleg - fleg) / dfc(T) * df
                        if not np.isclose(exp, own, rtol=1e-10, atol=1e-12):
                            add(f"C17.history|value of a credit product is not the value given by its own terms|{'after-another-CDS-of-the-same-maturity-was-built' if spec.get('decoy_cds') else 'no-other-CDS-built'}",
                                {"value": exp, "from_own_terms": float(own), "default_time": float(uv)})
                    elif ev is not None:
                        events.append(bool(ev))
                    if not np.isclose(got, exp, rtol=1e-12, atol=1e-12 * (1 + abs(exp)), equal_nan=True):
                        comp = "fine" if ci == 0 else "coarse"
                        if lvl is None:
                            comp = "single"
                        # diagnose the mechanism: which leaked state reproduces the stored value?
                        mech = "other"
                        if ev is not None:
                            alt = copy.deepcopy(pristine)
                            alt.update(ProcessRepresentation.LOG if log else ProcessRepresentation.IDENDITY)
                            alt.payoff.barrier_event = True
                            a_uv = alt.underlying_value(ptimes, path, j)
                            if np.isclose(got, float(alt(a_uv)) * df, rtol=1e-12, atol=1e-12):
                                mech = "knock-flag-set-by-another-path"
                                if comp == "fine" and len(comps) == 2:
                                    mech = "knock-flag-set-by-another-path(or the coarse path of the pair)"
                        if mech == "other" and not log:
                            with np.errstate(all="ignore"):
                                a_val, _ = _evaluate(pristine_run, "LOG", ptimes, path, j)
                            if np.isclose(got, float(a_val) * df, rtol=1e-9) or (not np.isfinite(got)) or abs(got) > 1e30:
                                mech = "logarithmic-representation-kept-from-an-earlier-run"
                        anylog = any(r_["rep"] == "LOG" for r_ in sc["runs"][:ri])
                        hist2 = "first-run" if ri == 0 else ("after-a-LOG-run" if anylog else "after-IDENTITY-runs")
                        add(f"C17.history|stored payoff differs from the value of a fresh copy of the product on the same path|{mech}|{comp}|{hist2}|engine={run['engine']}",
                            {"run": ri, "level": lvl, "index": i, "stored": got, "fresh_copy": exp, "barrier_event_fresh": ev,
                             "payoff": cls, "rep": run["rep"], "path": path.tolist()})
                    # ---- monitors (pure identities, on the paths produced) -----------------------------
                    _monitors(add, sc, pristine_run, run["rep"], ptimes, path, j, base, log)
                if len(ev_pair) == 2 and ev_pair[0] is not None and ev_pair[0] != ev_pair[1]:
                    wd.probes["c17.fine_coarse_events_differ"] += 1
        if events and any(events) and not all(events):
            wd.probes["c17.barrier_event_mixed" if kind not in ("cds", "ntd", "cdsk") else "c17.default_mixed"] += 1
        pattern.append((run["engine"], run["rep"], run["nproc"] == 1, tuple(events[:12])))
    key = hashlib.sha256(repr((kind, spec.get("barrier_type"), m, tuple(pattern))).encode()).hexdigest()[:16]
    nontrivial = len(reps_seen) >= 2 or any(p[3] and any(p[3]) and not all(p[3]) for p in pattern)
    return {"violations": V, "errors": errors, "info": {"runs": len(reps_seen)}, "key": key, "nontrivial": nontrivial}


def _sum_of(u):
    return float(np.sum(u))


def _fresh_underlying(sc):
    """a NEW underlying object of the session's product, built through its constructor (not a copy)"""
    from rpylib.product import underlying as U

    spec = sc["product"]
    kind = spec["kind"]
    if kind == "multi":
        d_ = spec["names"]
        spots0 = [sc["x0"]] * d_
        return {"logspot": lambda: U.LogSpot(), "performances_rainbow": lambda: U.Performances(spots0),
                "max_performances": lambda: U.MaximumOfPerformances(spots0), "mean": lambda: U.Mean(),
                "nthspot": lambda: U.NthSpot(spec["nth"]), "indicators": lambda: U.Indicators([0.97 * sc["x0"]] * d_),
                "coupon": lambda: U.Spot()}[spec["sub"]]()
    if kind == "asian":
        return U.Asian(U.Discretisation[spec["disc"]])
    if kind == "rates":
        return U.Libors()
    if kind in ("cds", "ntd", "cdsk"):
        return None
    return U.Spot()


def _fresh_default_monitor(add, sc, times, path, jump, log):
    """a freshly BUILT underlying is in the identity representation, whatever other objects were priced or switched
    before it was built: its value on the spot path equals that of a second fresh object switched to identity explicitly"""
    from rpylib.process.process import ProcessRepresentation

    try:
        a, b = _fresh_underlying(sc), _fresh_underlying(sc)
    except Exception:
        return
    if a is None:
        return
    spot_path = np.exp(path) if log else np.asarray(path, dtype=float)
    spot_jump = np.exp(jump) if log else np.asarray(jump, dtype=float)
    try:
        with np.errstate(all="ignore"):
            va = np.asarray(a.value(times, spot_path, spot_jump), dtype=float)  # as built, before anything is switched
            b.update(ProcessRepresentation.IDENDITY)
            vb = np.asarray(b.value(times, spot_path, spot_jump), dtype=float)
    except Exception:
        return
    if va.shape != vb.shape or not np.allclose(va, vb, rtol=1e-12, atol=0.0, equal_nan=True):
        add(f"C17.history|a newly built underlying does not start in the identity representation: it gives another value than one switched to identity explicitly|underlying={type(a).__name__}",
            {"as_built": np.ravel(va).tolist()[:3], "switched_to_identity": np.ravel(vb).tolist()[:3]})


def _monitors(add, sc, pristine, rep, times, path, jump, base, log):
    """static identities on one produced path, with fresh products (secondary: coverage = the paths produced)"""
    _fresh_default_monitor(add, sc, times, path, jump, log)
    from rpylib.process.process import ProcessRepresentation
    from rpylib.product.payoff import Vanilla, PayoffType, Forward, Digital, CallSpread, Butterfly, Barrier, BarrierType
    from rpylib.product.product import Product
    from rpylib.product.underlying import Spot, DefaultTime

    spec = sc["product"]
    kind = spec["kind"]
    if kind == "multi" and spec.get("sub") == "mean":
        from rpylib.product.underlying import Mean

        u_ = Mean()
        u_.update(ProcessRepresentation.LOG if log else ProcessRepresentation.IDENDITY)
        got = float(u_.value(times, path, jump))
        term = np.exp(np.asarray(path)[..., -1]) if log else np.asarray(path)[..., -1]
        if not (term.min() * (1 - 1e-12) <= got <= term.max() * (1 + 1e-12)):
            add("C17.identity|an average does not lie between the extremes it averages|underlying=Mean",
                {"got": got, "min": float(term.min()), "max": float(term.max())})
    if kind in ("multi", "rates"):
        return
    if kind == "asian":
        from rpylib.product.underlying import Asian, Discretisation

        spot_path = np.exp(path) if log else np.asarray(path, dtype=float)
        vals = {}
        for use_log in ((True, False) if np.all(spot_path > 0) else (False,)):  # a log path needs positive spots
            u_ = Asian(Discretisation[spec["disc"]])
            u_.update(ProcessRepresentation.LOG if use_log else ProcessRepresentation.IDENDITY)
            try:
                vals[use_log] = float(u_.value(times, np.log(spot_path) if use_log else spot_path, jump))
            except Exception as e:
                add(f"C17.value|a product built from the library's own payoff and underlying has no value on a valid path: evaluation raises|{type(e).__name__}|underlying=Asian|rep={'LOG' if use_log else 'IDENTITY'}",
                    {"error": str(e)[:200]})
        for use_log, v_ in vals.items():
            if not (spot_path.min() * (1 - 1e-12) <= v_ <= spot_path.max() * (1 + 1e-12)):
                add("C17.identity|an average does not lie between the extremes it averages|underlying=Asian",
                    {"got": v_, "min": float(spot_path.min()), "max": float(spot_path.max()), "log": use_log})
        if len(vals) == 2 and not np.isclose(vals[True], vals[False], rtol=1e-12):
            add("C17.rep|logarithmic and identity representations give different underlying values for one spot path|underlying=Asian",
                {"log": vals[True], "identity": vals[False]})
    if kind in ("ntd", "cdsk", "cds"):
        # same spot path (and the same jumps, as ratios) in the other representation -> same default time
        from rpylib.product.underlying import NthDefaultTimes, DefaultTimeNthUnderlying

        if kind == "cds":
            mk = lambda: DefaultTime(spec["default_level"])
        elif kind == "ntd":
            mk = lambda: NthDefaultTimes(default_levels=list(spec["default_levels"]), index=spec["index"])
        else:
            mk = lambda: DefaultTimeNthUnderlying(default_levels=list(spec["default_levels"]), underlying_index=spec["index"])
        ul, ui = mk(), mk()
        ul.update(ProcessRepresentation.LOG)
        ui.update(ProcessRepresentation.IDENDITY)
        lp, lj = (np.asarray(path), np.asarray(jump)) if log else (np.log(path), np.log(jump))
        a_ = float(ul.value(times, lp, lj))
        try:
            b_ = float(ui.value(times, np.exp(lp), np.exp(lj)))
        except Exception as e:
            b_ = None
            add(f"C17.rep|logarithmic and identity representations give different underlying values for one spot path|underlying={type(ui).__name__}|identity-raises-{type(e).__name__}",
                {"log": a_, "identity": "raised: " + str(e)[:160]})
        if b_ is not None and a_ != b_:
            add(f"C17.rep|logarithmic and identity representations give different underlying values for one spot path|underlying={type(ui).__name__}",
                {"log": a_, "identity": b_})
    if kind == "cdsk":
        k_ = spec["index"] - 1
        a_ = list(spec["default_levels"])[k_]
        u_ = DefaultTimeNthUnderlying(default_levels=list(spec["default_levels"]), underlying_index=spec["index"])
        u_.update(ProcessRepresentation.LOG)
        got = float(u_.value(times, path, jump))
        idx = [i for i, x in enumerate(np.diff(np.asarray(jump)[k_])) if x < a_]
        exp = times[idx[0] + 1] if idx else np.inf
        if got != exp:
            add("C17.identity|default time of the k-th name is not the first time one of its jumps falls below its threshold",
                {"got": got, "expected": float(exp), "k": k_ + 1})
        return
    if kind == "ntd":
        # n-th default times are non-decreasing in n, each is the first time a jump of that name falls below its level
        from rpylib.product.underlying import NthDefaultTimes

        levels_ = list(spec["default_levels"])
        prev = -np.inf
        firsts = []
        for a_, jrow in zip(levels_, np.asarray(jump)):
            idx = [i for i, x in enumerate(np.diff(jrow)) if x < a_]
            firsts.append(times[idx[0] + 1] if idx else np.inf)
        for k_ in range(1, len(levels_) + 1):
            u_ = NthDefaultTimes(default_levels=levels_, index=k_)
            u_.update(ProcessRepresentation.LOG)
            got = float(u_.value(times, path, jump))
            exp = sorted(firsts)[k_ - 1]
            if got != exp:
                add("C17.identity|n-th default time is not the n-th smallest first-passage time of the names", {"n": k_, "got": got, "expected": float(exp)})
            if got < prev:
                add("C17.identity|n-th-to-default times are not non-decreasing in n", {"n": k_, "got": got, "previous": prev})
            prev = got
        return
    spot_path = np.exp(path) if log else path
    # representation consistency of the underlying: same spot path -> same underlying value
    s_log, s_id = Spot(), Spot()
    s_log.update(ProcessRepresentation.LOG)
    s_id.update(ProcessRepresentation.IDENDITY)
    if np.all(spot_path > 0):
        a = s_log.value(times, np.log(spot_path), None)
        b = s_id.value(times, spot_path, None)
        if not np.isclose(a, b, rtol=1e-12):
            add("C17.rep|logarithmic and identity representations give different underlying values for one spot path|underlying=Spot",
                {"log": float(a), "identity": float(b)})
    S = float(spot_path[-1])
    K = spec["strike"]
    call = float(Vanilla(K, PayoffType.CALL)(S))
    put = float(Vanilla(K, PayoffType.PUT)(S))
    fwd = float(Forward(K)(S))
    scale = 1 + abs(S)
    if abs((call - put) - fwd) > 1e-12 * scale:
        add("C17.identity|call minus put differs from the forward", {"S": S, "K": K})
    if abs(float(Digital(K, PayoffType.CALL)(S)) + float(Digital(K, PayoffType.PUT)(S)) - 1.0) > 0:
        add("C17.identity|digital call plus digital put differs from one", {"S": S, "K": K})
    w = spec.get("width", 5.0)
    cs = float(CallSpread(K, K + w)(S))
    exp_cs = float(Vanilla(K, PayoffType.CALL)(S)) - float(Vanilla(K + w, PayoffType.CALL)(S))
    if abs(cs - exp_cs) > 1e-12 * scale or cs < 0:
        add("C17.identity|call spread differs from its call combination or is negative", {"S": S, "K": K, "got": cs, "expected": exp_cs})
    bf = float(Butterfly(K - w, K, K + w)(S))
    exp_bf = (float(Vanilla(K - w, PayoffType.CALL)(S)) - 2 * float(Vanilla(K, PayoffType.CALL)(S))
              + float(Vanilla(K + w, PayoffType.CALL)(S)))
    if abs(bf - exp_bf) > 1e-11 * scale or bf < -1e-11 * scale:
        add("C17.identity|butterfly differs from its call combination or is negative", {"S": S, "K": K, "got": bf, "expected": exp_bf})
    if kind == "barrier":
        bt = spec["barrier_type"]
        other = {"UP_AND_IN": "UP_AND_OUT", "UP_AND_OUT": "UP_AND_IN", "DOWN_AND_IN": "DOWN_AND_OUT",
                 "DOWN_AND_OUT": "DOWN_AND_IN"}[bt]
        cp = PayoffType[spec["cp"]]
        vals = []
        for t_ in (bt, other):
            prod = Product(Spot(), Barrier(K, cp, BarrierType[t_], spec["barrier"]), spec["maturity"])
            prod.update(ProcessRepresentation.LOG if log else ProcessRepresentation.IDENDITY)
            uv = prod.underlying_value(times, path, jump)
            vals.append(float(prod(uv)))
        van = float(Vanilla(K, cp)(S))
        if abs(vals[0] + vals[1] - van) > 1e-12 * scale:
            add("C17.identity|knock-in plus knock-out differs from the vanilla", {"S": S, "in_out": vals, "vanilla": van})
        # the knock event is a property of the SPOT path: same spot path, other representation -> same value
        if np.all(spot_path > 0):
            res = []
            for use_log in (True, False):
                prod = Product(Spot(), Barrier(K, cp, BarrierType[bt], spec["barrier"]), spec["maturity"])
                prod.update(ProcessRepresentation.LOG if use_log else ProcessRepresentation.IDENDITY)
                pth = np.log(spot_path) if use_log else spot_path
                uv = prod.underlying_value(times, pth, jump)
                res.append(float(prod(uv)))
            if abs(res[0] - res[1]) > 1e-9 * scale:
                add(f"C17.rep|barrier product value differs between the logarithmic and the identity representation of one spot path|{bt.split('_')[0].lower()}",
                    {"log": res[0], "identity": res[1], "barrier": spec["barrier"], "spot_path": spot_path.tolist()})
    if kind == "cds" and log:
        a = spec["default_level"]
        dt_ = DefaultTime(a)
        dt_.update(ProcessRepresentation.LOG)
        got = dt_.value(times, path, jump)
        inc = np.diff(jump)
        idx = [i for i, x in enumerate(inc) if x < a]
        exp = times[idx[0] + 1] if idx else np.inf
        if got != exp:
            add("C17.identity|default time is not the first time a jump falls below the threshold", {"got": float(got), "expected": float(exp)})
    # linear notional
    p1 = copy.deepcopy(pristine)
    p2 = copy.deepcopy(pristine)
    p2.notional = 3.0 * p1.notional
    for p in (p1, p2):
        p.update(ProcessRepresentation.LOG if log else ProcessRepresentation.IDENDITY)
    v1 = float(p1(p1.underlying_value(times, path, jump)))
    v2 = float(p2(p2.underlying_value(times, path, jump)))
    if abs(v2 - 3.0 * v1) > 1e-12 * (1 + abs(v2)):
        add("C17.identity|product value is not linear in the notional", {"v1": v1, "v3": v2})


def summarise(sc, o):
    return {"scenario": {"product": sc["product"], "runs": sc["runs"], "vol": sc["vol"]},
            "violations": [v["sig"] for v in o["violations"]], "errors": o.get("errors", [])[:2]}
