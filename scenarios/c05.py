"""C05 - multilevel estimator = sum of per-level means over exactly the simulated samples.

Reference model = the world's sample ledger (every sample the scripted coupling handed out, with level, serial, fine
and coarse value). After EVERY pass (set_mlmc_results observed from outside) and at the end: per level, the stored
fine/coarse payoffs are the ledger samples each exactly once; N_l, price, level means/variances, kurtosis, per-level
cost are recomputed from the ledger with plain numpy; with control variates the adjusted arrays are the textbook
regression on the ledger samples.
"""
import hashlib
import json

import numpy as np

from . import mlmc_stub as M

ID = "C05"
RULE = ("one world per seed: adaptive (5/6) or fixed-level (1/6) multilevel run with a scripted coupling whose per-level "
        "laws (mean/variance decay, zero-variance / zero-mean / heavy-tailed levels, cost growth), N0, initial and maximum "
        "level, rmse, given or regressed rates, stopping criterion (Giles / never / always / after k / run-to-max), "
        "0-2 control variates, df, notional, nb_of_processes are drawn from sha256(seed); scheduler decisions from the "
        "world PRNG. non-trivial = completed run with >=2 passes or >=1 level added after the start; distinct = hash of "
        "the loop trajectory [(level, current, extra) per compute_level_l call] and the chunk->worker vector")
REAL = ["rpylib.montecarlo.multilevel.engine", "rpylib.montecarlo.multilevel.criteria",
        "rpylib.montecarlo.statistic.{statistic,tools}", "rpylib.montecarlo.path (MLMCPath)",
        "rpylib.product.{product,payoff,underlying}", "rpylib.montecarlo.configuration", "dill round trip per task"]
STUB = ["coupling process -> scenarios.stubs.ScriptedCoupling (88% of the worlds; 12% run the REAL CouplingMarkovChain)", "pathos pool -> SimPool", "clock/pid/entropy/RNG seams",
        "gmpy2.qdiv, tqdm"]
ASSUMPTIONS = ["payoff reference formulas written independently in the oracle",
               "moments compared with rtol 1e-9 (different summation order allowed)",
               "control-variate regression compared only when the controls' covariance is well conditioned"]
TIERS = {
    "quick": {"worlds": 1000, "wall": 520, "shrink_budget": 60,
              "required_probes": ["c05.run_completed", "c05.level_added_late", "c05.multi_pass", "c05.with_controls",
                                  "c05.pool_run", "c05.fixed_variant", "c05.real_coupling_run"]},
    "thorough": {"worlds": 20000, "wall": 2900, "shrink_budget": 150,
                 "required_probes": ["c05.run_completed", "c05.level_added_late", "c05.multi_pass", "c05.with_controls",
                                     "c05.pool_run", "c05.fixed_variant", "c05.pass_with_idle_level"]},
}


def generate(seed, tier="quick"):
    from simkit.world import sub_rng

    r = sub_rng(seed, "c05.real")
    if r.random() < 0.12:
        # second configuration: the REAL coupled Markov chain on a tiny grid instead of the scripted coupling; samples are
        # identified by their path arrays (sample ledger at MCPath.set_to_path)
        return {"world_seed": seed, "real": True, "variant": "adaptive",
                "process": {"kind": "coupling", "model": r.choice(["hem", "hem_lowint", "cgmy02", "vg"]),
                            "grid": {"kind": "fixed", "h": r.choice([0.1, 0.05]), "n": r.choice([6, 10])},
                            "method": r.choice(["adapted1d", "inversion"])},
                "product": {"kind": r.choice(["call", "put"]), "maturity": r.choice([0.5, 1.0]), "strike": r.choice([95.0, 100.0, 105.0]),
                            "dates": 2, "notional": r.choice([1.0, 2.0])},
                "n0": r.choice([5, 20, 50]), "initial_level": 2, "maximum_level": r.choice([2, 3, 4]),
                "rmse": r.choice([2.0, 1.0, 0.5]), "nproc": r.choice([1, 1, 2, 4]), "seed": r.choice([None, 9]),
                "controls": [], "env": {"cpu_count": 4, "path_cost": 1e-5, "spawn_cost": 1e-4}}
    return M.generate(seed, tier, label="c05")


def shrink_candidates(sc):
    if sc.get("real"):
        import copy

        for k, v in (("nproc", 1), ("n0", 5), ("maximum_level", 2), ("rmse", 2.0)):
            if sc[k] != v:
                c = copy.deepcopy(sc)
                c[k] = v
                yield c
        return
    yield from M.shrink_candidates(sc)


def _execute_real(wd, sc):
    """real CouplingMarkovChain through the real adaptive engine; reference = pristine product on every ledger path"""
    import copy

    from rpylib.montecarlo.configuration import ConfigurationMultiLevel, compute_convergence_rates
    from rpylib.montecarlo.multilevel.engine import Engine
    from rpylib.process.process import ProcessRepresentation
    from simkit.world import HarnessError
    from . import builders as B

    V, errors = [], []
    cls = f"real-coupling|procs={'1' if sc['nproc'] == 1 else 'pool'}"
    try:
        cp = B.build_process(sc["process"])
        product = B.build_product(sc["product"], cp.model)
        pristine = copy.deepcopy(product)
        cr = compute_convergence_rates(cp.model.blumenthal_getoor_index())
        cfg = ConfigurationMultiLevel(convergence_rates=cr, initial_level=sc["initial_level"], maximum_level=sc["maximum_level"],
                                      initial_mc_paths=sc["n0"], seed=sc["seed"], nb_of_processes=sc["nproc"])
        eng = Engine(cfg, cp)
        stats = eng.price(product, sc["rmse"])
    except HarnessError:
        raise
    except Exception as e:
        wd.probes["c05.run_raised"] += 1
        return {"violations": [], "errors": [{"kind": type(e).__name__, "msg": str(e)[:160]}], "info": {}, "key": None,
                "nontrivial": False}
    wd.probes["c05.run_completed"] += 1
    wd.probes["c05.real_coupling_run"] += 1
    if len(wd.samples) > 60000:
        raise HarnessError("sample cap")
    T = sc["product"]["maturity"]
    df = float(cp.fine_process.df(T))
    nlev = len(stats.mlmc_results.Nl)
    rep = cp.fine_process.process_representation
    tot = 0.0
    for lvl in range(nlev):
        recs = [x for x in wd.samples if x["level"] == lvl]
        f = np.asarray(stats.simulation_payoff_with_fine_process(level=lvl, no_control_variates=True), dtype=float)
        c = np.asarray(stats.simulation_payoff_with_coarse_process(level=lvl, no_control_variates=True), dtype=float)
        late = "late-level" if lvl > sc["initial_level"] else "initial-level"
        if int(stats.mlmc_results.Nl[lvl]) != len(recs) or f.shape[0] != len(recs):
            V.append({"sig": f"C05.count|reported N_l / stored rows differ from the number of samples simulated at the level|{late}|{cls}",
                      "oracle": "count", "detail": {"level": lvl, "Nl": int(stats.mlmc_results.Nl[lvl]), "rows": int(f.shape[0]),
                                                    "simulated": len(recs)}})
            continue
        pm = eng.path_managers[lvl]
        bad = None
        for i, rec_ in enumerate(recs):
            times = rec_["times"]
            det = np.asarray(pm.deterministic_path(times), dtype=float)
            comps = [(0, f)] if lvl == 0 else [(0, f), (1, c)]
            for ci, store in comps:
                d = rec_["diff"] if lvl == 0 else rec_["diff"][ci]
                j = rec_["jump"] if lvl == 0 else rec_["jump"][ci]
                dd = det if lvl == 0 else det[ci]
                pr = copy.deepcopy(pristine)
                pr.update(rep)
                val = float(pr(pr.underlying_value(times, dd + d + j, j))) * df
                if not np.isclose(store[i], val, rtol=1e-12, atol=1e-12 * (1 + abs(val))):
                    bad = (i, "fine" if ci == 0 else "coarse", float(store[i]), val)
                    break
            if bad:
                break
        if bad:
            V.append({"sig": f"C05.rows|stored {bad[1]} payoff is not the payoff of the sample simulated for that row|{late}|{cls}",
                      "oracle": "rows", "detail": {"level": lvl, "row": bad[0], "stored": bad[2], "expected": bad[3]}})
        if lvl == 0 and np.any(c != 0.0):
            V.append({"sig": f"C05.rows|coarse payoff at level 0 is not identically zero|{cls}", "oracle": "rows", "detail": {}})
        tot += float(np.mean(f - c)) if len(recs) else 0.0
    got = float(stats.price(no_control_variates=True))
    if not np.isclose(got, tot, rtol=1e-9, atol=1e-9 * (1 + abs(tot))):
        V.append({"sig": f"C05.price|price is not the sum over levels of the mean of (fine - coarse) over the simulated samples|{cls}",
                  "oracle": "price", "detail": {"got": got, "expected": tot}})
    starts = [c_ for c_ in wd.control if c_[0] == "level.start"]
    if any(c_[1] > sc["initial_level"] for c_ in starts):
        wd.probes["c05.level_added_late"] += 1
    if sc["nproc"] != 1:
        wd.probes["c05.pool_run"] += 1
    traj = tuple((c_[1], c_[2], c_[3]) for c_ in starts)
    key = hashlib.sha256(repr(("real", sc["process"], traj)).encode()).hexdigest()[:16]
    return {"violations": V, "errors": errors, "info": {"samples": len(wd.samples), "levels": nlev}, "key": key,
            "nontrivial": len(starts) > sc["initial_level"] + 1}


def _multiset_diag(rows, ref):
    """None if equal as multisets (to rounding); else a mechanism string"""
    if rows.shape != ref.shape:
        extra = rows.shape[0] - ref.shape[0]
        if extra > 0:
            ref_set = {round(float(x), 9) for x in ref}
            foreign = [i for i, x in enumerate(rows) if round(float(x), 9) not in ref_set]
            zeros_first = bool(foreign) and foreign[0] == 0 and rows[0] == 0.0
            return f"{'placeholder-zero-row-at-index-0' if zeros_first and len(foreign) == extra else 'extra-rows'}|extra={min(extra, 3)}"
        return f"missing-rows|missing={min(-extra, 3)}"
    a, b = np.sort(rows), np.sort(ref)
    scale = 1.0 + (np.max(np.abs(b)) if b.size else 0.0)
    if np.allclose(a, b, rtol=1e-12, atol=1e-12 * scale):
        return None
    ref_set = {round(float(x), 9) for x in ref}
    foreign = [i for i, x in enumerate(rows) if round(float(x), 9) not in ref_set]
    dup = len(rows) - len({round(float(x), 9) for x in rows})
    if foreign and all(rows[i] == 0.0 for i in foreign):
        return "zero-rows-in-place-of-samples"
    if dup and not foreign:
        return "duplicated-and-dropped-samples"
    return "foreign-values"


def check_snapshot(sc, ledger, snap, V, where):
    cls = f"variant={sc['variant']}|cv={'yes' if sc['controls'] else '0'}|procs={'1' if sc['nproc'] == 1 else 'pool'}"
    led = ledger[:snap["ledger_len"]]
    initial = sc["initial_level"]
    for lvl, (f, c) in enumerate(snap["levels"]):
        if f is None:
            continue
        rf, rc = M.level_reference(sc, led, lvl)
        late = "late-level" if lvl > initial else "initial-level"
        for name, rows, ref in (("fine", f, rf), ("coarse", c, rc)):
            d = _multiset_diag(rows, ref)
            if d is not None:
                V.append({"sig": f"C05.rows|stored {name} payoffs are not the simulated samples each exactly once|{d}|{late}|{cls}",
                          "oracle": "rows", "detail": {"at": where, "level": lvl, "rows": int(rows.shape[0]),
                                                       "ledger_samples": int(ref.shape[0])}})
        if lvl < len(snap["Nl"]) and snap["Nl"][lvl] != rf.shape[0]:
            V.append({"sig": f"C05.count|reported N_l differs from the number of samples simulated at the level|{'more' if snap['Nl'][lvl] > rf.shape[0] else 'fewer'}|{late}|{cls}",
                      "oracle": "count", "detail": {"at": where, "level": lvl, "Nl": snap["Nl"][lvl], "simulated": int(rf.shape[0])}})
        if lvl == 0 and c is not None and np.any(c != 0.0):
            V.append({"sig": f"C05.rows|coarse payoff at level 0 is not identically zero|{cls}", "oracle": "rows",
                      "detail": {"at": where}})
    # results recomputed from the ledger (raw arrays)
    res = snap.get("results")
    if res is not None:
        exp = {"ml": [], "vl": [], "mean_level_l": [], "var_level_l": [], "cl": [], "kurtosis": [], "kurt_scale": []}
        ok_levels = True
        for lvl in range(len(snap["Nl"])):
            rf, rc = M.level_reference(sc, led, lvl)
            if rf.size == 0:
                ok_levels = False
                break
            if sc["controls"]:
                continue
            d = rf - rc
            exp["ml"].append(abs(d.mean()))
            exp["vl"].append(max(0.0, d.var()))
            exp["mean_level_l"].append(rf.mean())
            exp["var_level_l"].append(rf.var())
            # kurtosis figure of the library: fourth central moment of the corrections over max(1, variance)^2
            den = max(1.0, d.var()) ** 2
            exp["kurtosis"].append(float(np.mean((d - d.mean()) ** 4)) / den)
            exp["kurt_scale"].append(float(np.max(np.abs(d)) ** 4) / den if d.size else 0.0)
        if ok_levels and not sc["controls"]:
            for k in ("ml", "vl", "mean_level_l", "var_level_l"):
                got = np.array(res[k], dtype=float)
                e = np.array(exp[k], dtype=float)
                scale = 1.0 + np.max(np.abs(e)) if e.size else 1.0
                if got.shape != e.shape or not np.allclose(got, e, rtol=1e-8, atol=1e-9 * scale * (scale if k.startswith("v") else 1.0)):
                    V.append({"sig": f"C05.results|{k} is not the statistic of the simulated samples|{cls}", "oracle": "results",
                              "detail": {"at": where, "got": got.tolist()[:6], "expected": e.tolist()[:6]}})
        if ok_levels and not sc["controls"] and "kurtosis" in res:
            got = np.array(res["kurtosis"], dtype=float)
            e = np.array(exp["kurtosis"], dtype=float)
            tol = 1e-7 * (1.0 + np.array(exp["kurt_scale"], dtype=float))  # the library expands the central moment: cancellation
            if got.shape != e.shape or np.any(np.abs(got - e) > tol + 1e-6 * np.abs(e)):
                V.append({"sig": f"C05.results|kurtosis is not the statistic of the simulated samples|{cls}", "oracle": "results",
                          "detail": {"at": where, "got": got.tolist()[:6], "expected": e.tolist()[:6]}})
        # cost per level = accumulated cost / N_l ; total cost = sum
        sum_cost = np.array(snap["sum_cost"], dtype=float)
        cnt = np.array([sum(1 for e_ in led if e_["level"] == lvl) for lvl in range(len(snap["Nl"]))], dtype=float)
        if np.all(cnt > 0):
            got = np.array(res["cl"], dtype=float)
            e = sum_cost / cnt
            if got.shape != e.shape or not np.allclose(got, e, rtol=1e-9, atol=1e-12):
                V.append({"sig": f"C05.results|cl is not the accumulated cost divided by the samples simulated|{cls}",
                          "oracle": "results", "detail": {"at": where, "got": got.tolist()[:6], "expected": e.tolist()[:6]}})
        law = sc.get("law")
        if law is not None and not sc.get("real"):
            # independent ledger of the cost: the scripted process charges a constant per path at each level, so the cost
            # accumulated for a level is that charge times the samples simulated there - whatever pass added the level
            per_path = np.array([0.0 if lvl in law.get("zero_cost_levels", []) else law["cost0"] * 2.0 ** (law["gamma"] * lvl)
                                 for lvl in range(len(snap["Nl"]))])
            e2 = per_path * cnt
            if sum_cost.shape != e2.shape or not np.allclose(sum_cost, e2, rtol=1e-9, atol=1e-12):
                bad = [i for i in range(min(len(sum_cost), len(e2))) if not np.isclose(sum_cost[i], e2[i], rtol=1e-9, atol=1e-12)]
                late = "late-level" if bad and bad[0] > initial else "initial-level"
                V.append({"sig": f"C05.results|accumulated cost of a level is not the cost of the samples simulated at that level|{late}|{cls}",
                          "oracle": "results", "detail": {"at": where, "got": sum_cost.tolist()[:6], "expected": e2.tolist()[:6]}})


def execute(wd, sc):
    if sc.get("real"):
        return _execute_real(wd, sc)
    rec = M.run(wd, sc)
    V, errors = [], []
    if rec.get("warmup_bound"):
        wd.probes["c05.warmup_bound_hit"] += 1
        return {"violations": [], "errors": [{"kind": "bound", "msg": rec["warmup_bound"]}], "info": {}, "key": None,
                "nontrivial": False}
    if rec["harness"]:
        from simkit.world import HarnessError

        wd.probes["c05.bound_hit"] += 1
        return {"violations": [], "errors": [{"kind": "bound", "msg": rec["harness"]}], "info": {}, "key": None,
                "nontrivial": False}
    if rec["error"]:
        errors.append(rec["error"])
        wd.probes["c05.run_raised"] += 1
    ledger = rec["ledger"]
    for i, snap in enumerate(rec["passes"]):
        check_snapshot(sc, ledger, snap, V, where=f"pass {i}")
    stats = rec["stats"]
    cls = f"variant={sc['variant']}|cv={'yes' if sc['controls'] else '0'}|procs={'1' if sc['nproc'] == 1 else 'pool'}"
    if stats is not None:
        wd.probes["c05.run_completed"] += 1
        nlev = len(stats.mlmc_results.Nl)
        # ---- the RETURNED results object (what the user reads), against the complete ledger ---------------
        res = stats.mlmc_results
        final = {"Nl": [int(x) for x in np.asarray(res.Nl).tolist()], "ledger_len": len(ledger), "levels": [],
                 "sum_cost": [float(x) for x in np.asarray(getattr(res, "_sum_cost", np.zeros(nlev))).tolist()]}
        for lvl in range(nlev):
            try:
                f_ = np.array(stats.simulation_payoff_with_fine_process(level=lvl, no_control_variates=True), dtype=float)
                c_ = np.array(stats.simulation_payoff_with_coarse_process(level=lvl, no_control_variates=True), dtype=float)
            except Exception:
                f_, c_ = None, None
            final["levels"].append((f_, c_))
        try:
            final["results"] = M.read_results(res, sc.get("read_order"))
            if sc.get("read_order") and list(sc["read_order"]) != list(M.RESULT_FIELDS):
                wd.probes["c05.results_read_in_another_order"] += 1
            final["results"]["cost"] = float(res.cost)
            # reading the figures again, in the reverse order, gives the same figures (reads are pure)
            again = M.read_results(res, list(reversed(sc.get("read_order") or M.RESULT_FIELDS)))
            first = {k_: final["results"][k_] for k_ in again}
            if json.dumps(first, sort_keys=True) != json.dumps(again, sort_keys=True):
                V.append({"sig": f"C05.results|reading the returned figures twice gives different values|{cls}", "oracle": "results",
                          "detail": {"differs": [k_ for k_ in again if json.dumps(first[k_]) != json.dumps(again[k_])]}})
        except Exception as e:
            errors.append({"kind": type(e).__name__, "msg": "reading the returned results: " + str(e)[:120]})
        check_snapshot(sc, ledger, final, V, where="returned results")
        # ---- price = sum over levels of mean(fine - coarse) over the ledger samples --------------------
        tot = 0.0
        complete = True
        for lvl in range(nlev):
            rf, rc = M.level_reference(sc, ledger, lvl)
            if rf.size == 0:
                complete = False
                break
            tot += (rf - rc).mean()
        # every level of the statistics object contributes to price(): levels beyond the results are suspicious
        n_stat_levels = len(stats.mc_statistics)
        if n_stat_levels != nlev:
            V.append({"sig": f"C05.levels|statistics hold a different number of levels than the results report|{cls}",
                      "oracle": "levels", "detail": {"statistics_levels": n_stat_levels, "result_levels": nlev}})
        if complete:
            got = float(stats.price(no_control_variates=True))
            scale = 1.0 + abs(tot)
            if not np.isclose(got, tot, rtol=1e-9, atol=1e-9 * scale):
                V.append({"sig": f"C05.price|price is not the sum over levels of the mean of (fine - coarse) over the simulated samples|{cls}",
                          "oracle": "price", "detail": {"got": got, "expected": tot, "levels": nlev}})
        # ---- control variates: adjusted arrays = textbook regression on the ledger samples -----------
        if sc["controls"] and complete:
            wd.probes["c05.with_controls"] += 1
            p = np.array([c["price"] for c in sc["controls"]], dtype=float)
            tot_cv = 0.0
            comparable = True
            for lvl in range(nlev):
                rf, rc = M.level_reference(sc, ledger, lvl)
                xf, xc = M.control_reference(sc, ledger, lvl)
                parts = []
                for y, x in ((rf, xf), (rc, xc)):
                    if lvl == 0 and y is rc:
                        parts.append(y)
                        continue
                    Sx = np.atleast_2d(np.cov(x.T, bias=True)) if x.shape[0] > 1 else np.zeros((x.shape[1], x.shape[1]))
                    if x.shape[0] < 3 or np.amin(np.abs(Sx)) < 1e-9 or np.linalg.cond(Sx) > 1e8:
                        comparable = False
                        parts.append(y)
                        continue
                    Sxy = np.array([np.mean((x[:, j] - x[:, j].mean()) * (y - y.mean())) for j in range(x.shape[1])])
                    b = np.linalg.lstsq(Sx, Sxy, rcond=None)[0]
                    parts.append(y - (x - p) @ b)
                tot_cv += (parts[0] - parts[1]).mean()
            if comparable:
                got = float(stats.price())
                scale = 1.0 + abs(tot_cv)
                if not np.isclose(got, tot_cv, rtol=1e-7, atol=1e-8 * scale):
                    V.append({"sig": f"C05.cv|price with control variates is not the sum of the regression-adjusted level means|{cls}",
                              "oracle": "cv", "detail": {"got": got, "expected": tot_cv}})
    # ---- probes ------------------------------------------------------------------------------------------
    starts = [c for c in rec["control"] if c[0] == "level.start"]
    if any(c[1] > sc["initial_level"] for c in starts):
        wd.probes["c05.level_added_late"] += 1
    if len(rec["passes"]) >= 3:
        wd.probes["c05.multi_pass"] += 1
    if any(c[3] == 0 for c in starts):
        wd.probes["c05.pass_with_idle_level"] += 1
    if sc["nproc"] != 1 and stats is not None:
        wd.probes["c05.pool_run"] += 1
    if sc["variant"] == "fixed" and stats is not None:
        wd.probes["c05.fixed_variant"] += 1
    seen = set()
    V = [v for v in V if not (v["sig"] in seen or seen.add(v["sig"]))]
    traj = tuple((c[1], c[2], c[3]) for c in starts)
    assign = tuple((e[2], e[3]) for e in wd.events if e[0] == "task.start")
    key = hashlib.sha256(repr((traj, assign)).encode()).hexdigest()[:16]
    nontrivial = stats is not None and (len(rec["passes"]) >= 3 or any(c[1] > sc["initial_level"] for c in starts))
    info = {"passes": len(rec["passes"]), "samples": len(ledger),
            "levels": None if stats is None else len(stats.mlmc_results.Nl), "aborted": rec["aborted"]}
    return {"violations": V, "errors": errors, "info": info, "key": key, "nontrivial": nontrivial}


def summarise(sc, o):
    if sc.get("real"):
        return {"scenario": sc, "violations": [v["sig"] for v in o["violations"]], "info": o.get("info")}
    return {"scenario": {k: sc[k] for k in ("variant", "n0", "initial_level", "maximum_level", "rmse", "rates", "criteria",
                                            "nproc", "law")}, "controls": len(sc["controls"]),
            "decisions": len(o.get("trace", [])), "violations": [v["sig"] for v in o["violations"]], "info": o.get("info")}
