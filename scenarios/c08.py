"""C08 - randomness discipline: seeded runs repeat; no two samples share random variates.

Workload: one pricing run (standard / multilevel fixed-level / multilevel adaptive engine, real processes) inside a
simulated world: SimPool (scheduled chunks, per-task pickling, fork-inherited generator state), virtual clock, simulated
pids and host entropy, per-context generators behind the RNG seam. For a seeded single-process configuration the run is
executed twice in the same world (fresh identical objects, other clock second, other pid, generators left wherever
the first run / unrelated draws put them).

Oracles (DESIGN.md section 6, C08):  R repeatability - U1 no generator state produces variates twice - U2 no re-seed
onto a state that already produced variates - U3 a pre-drawn row is consumed at most once - U4 pool workers start from
pairwise distinct, unused generator states - D no two samples of a run share their Brownian increments bit for bit.
"""
import numpy as np

from simkit import rngseam
from simkit.world import sub_rng, Context, HarnessError
from . import builders as B

ID = "C08"
RULE = ("one world per seed: scenario = (engine, process family/model/grid/sampler, product dates, n paths, seed, "
        "nb_of_processes, machine speed, clock origin/jumps, pid space) drawn from sha256(seed); scheduler decisions "
        "(initializer order and delays, task->worker assignment mode and choices) from the world's PRNG. "
        "non-trivial = the run completed AND at least one of: >1 worker with >=2 tasks, a second seeding event, "
        ">=1 pre-drawn batch, a repeat comparison; distinct = distinct hash of (engine, process kind, mode, seed class, "
        "nproc, chunk->worker vector, seeding-event pattern, level/pass trajectory)")
REAL = ["rpylib.process.markovchain.{markovchainlevycopula,markovchainsde}, rpylib.process.coupling.{couplinglevycopula,couplingsde}",
        "rpylib.montecarlo.standard.engine", "rpylib.montecarlo.multilevel.engine", "rpylib.montecarlo.configuration",
        "rpylib.process.levyprocess", "rpylib.process.markovchain.markovchain",
        "rpylib.process.coupling.couplingmarkovchain", "rpylib.distribution.* samplers", "rpylib.montecarlo.statistic",
        "rpylib.product.*", "multiprocess.reduction.ForkingPickler (dill) for every task"]
STUB = ["pathos.multiprocessing.Pool -> simkit.simpool.SimPool", "time.time/os.getpid/os.urandom/os.cpu_count for rpylib "
        "callers -> virtual clock / simulated pids / world entropy", "numpy.random.* and random.* -> per-context "
        "generators with recorder", "gmpy2.qdiv -> fractions.Fraction", "tqdm -> identity"]
ASSUMPTIONS = [
    "SimPool reproduces multiprocess.pool semantics (chunking rule, per-task pickling, fork inheritance); calibrated "
    "against the real pool by selftest/pool_fidelity.py",
    "two draws with equal generator fingerprints return the same variates; equal fingerprints arise only by re-seeding "
    "or fork inheritance (MT19937 period)",
    "real-OS scheduling of the pool's helper threads is not explored (callback runs once, after all results)",
]
TIERS = {
    "quick": {"worlds": 1000, "wall": 520, "shrink_budget": 60,
              "required_probes": ["c08.run_completed", "c08.repeat_compared", "pool.worker_ran_2plus_tasks",
                                  "c08.predraw_batch", "c08.multilevel_run", "c08.default_convergence_rates"]},
    "thorough": {"worlds": 16000, "wall": 2900, "shrink_budget": 150,
                 "required_probes": ["c08.run_completed", "c08.repeat_compared", "pool.worker_ran_2plus_tasks",
                                     "c08.predraw_batch", "c08.multilevel_run",
                                     "pool.idle_worker", "pool.task_of_one_item"]},
}

SEED_MODULUS = 123456789


def generate(seed, tier="quick"):
    r = sub_rng(seed, "c08.scenario")
    engine = r.choice(["standard"] * 4 + ["mlmc_fixed"] * 2 + ["mlmc_adaptive"] * 2)
    if engine == "standard":
        kind = r.choice(["levy", "chain", "chain", "chain", "copula", "sde"])
    else:
        kind = r.choice(["coupling", "coupling", "coupling", "copula_coupling", "sde_coupling"])
    if kind in ("copula", "copula_coupling"):
        from . import c02nd

        proc = c02nd.generate_process(r)
        proc["margins"] = proc["margins"][:2]
        proc["grid"] = {"kind": "fixed", "h": proc["grid"]["h"], "n": 4}
        proc["kind"] = kind
    elif kind in ("sde", "sde_coupling"):
        proc = {"kind": kind, "driver": r.choice(["hem", "cgmy02", "vg"]), "coef": r.choice(["const", "diag"]),
                "h": r.choice([0.1, 0.2]), "model": "sde"}
    elif kind == "levy":
        model = r.choice(B.DIRECT_MODELS)
        proc = {"kind": "levy", "model": model}
    else:
        model = r.choice(B.CHAIN_MODELS)
        methods = B.COUPLING_METHODS if kind == "coupling" else B.WORKING_METHODS
        gk = r.choice(["uniform", "uniform", "fixed", "geometric"])
        if gk == "uniform":
            grid = {"kind": "uniform", "h": r.choice([0.05, 0.1, 0.08])}
        elif gk == "fixed":
            grid = {"kind": "fixed", "h": r.choice([0.05, 0.1]), "n": r.choice([6, 10, 16])}
        else:
            grid = {"kind": "geometric", "h": r.choice([0.05, 0.1]), "n": r.choice([3, 5, 8])}
        proc = {"kind": kind, "model": model, "grid": grid, "method": r.choice(methods)}
    stochastic = r.random() < 0.3 and kind not in ("sde", "sde_coupling")
    if kind in ("copula", "copula_coupling", "sde", "sde_coupling"):
        product = {"kind": "ntd" if (stochastic and kind.startswith("copula")) else "sum", "maturity": r.choice([0.25, 0.5, 1.0]),
                   "dates": 2}
    elif stochastic:
        product = {"kind": "cds", "maturity": r.choice([0.5, 1.0, 2.0]), "default_level": r.choice([-0.06, -0.1])}
        if sub_rng(seed, "c08.stoch_call").random() < 0.5:
            # path-dependent dates with a payoff that sees the diffusion part too (a default time only reads the jumps)
            product = {"kind": "stoch_call", "maturity": product["maturity"], "strike": 100.0}
    else:
        product = {"kind": r.choice(["call", "put", "forward"]), "maturity": r.choice([0.25, 0.5, 1.0]),
                   "strike": r.choice([90.0, 100.0, 110.0]), "dates": r.choice([2, 2, 3, 4, 6])}
    seed_cls = r.choice(["none", "none", "int", "int", "int", "zero"])
    cfg_seed = {"none": None, "zero": 0, "int": r.choice([1, 7, 42, 2 ** 31 - 1, 123456789, 987654321])}[seed_cls]
    nproc = r.choice([1, 1, 1, 2, 3, 4, 4, None])
    sc = {
        "world_seed": seed,
        "engine": engine,
        "process": proc,
        "product": product,
        "seed": cfg_seed,
        "nproc": nproc,
    }
    if engine == "standard":
        sc["n"] = r.choice([1, 2, 3, 5, 8, 17, 33, 64, 100, 257])
    elif engine == "mlmc_fixed":
        sc["n"] = r.choice([2, 3, 5, 9, 17, 40])
        sc["max_level"] = r.choice([0, 1, 2, 3])
        sc["initial_level"] = 0
    else:
        sc["n"] = r.choice([4, 8, 16, 30])
        sc["initial_level"] = 2
        sc["max_level"] = r.choice([2, 3, 4])
        sc["rmse"] = r.choice([4.0, 2.0, 1.0])
    # ---- environment / faults (swarm: each world enables a random subset) ------------------------
    env = {"cpu_count": r.choice([1, 2, 4, 7, 16]), "parent_pid": r.choice([1, 17, 4242, 31000])}
    speed = r.choice(["fast", "fast", "medium", "slow"])
    env["path_cost"] = {"fast": 1e-6, "medium": 1e-3, "slow": 0.4}[speed]
    env["spawn_cost"] = {"fast": 1e-5, "medium": 5e-3, "slow": 0.3}[speed]
    faults = []
    t0 = 1_700_000_000 + r.randrange(10 ** 6) + r.random()
    if r.random() < 0.15:
        g = r.choice([1, 1, 3, 9])
        k = r.choice([0, 0, 1, 13, 14]) if g == 1 else r.choice([41, 124, 125])
        t0 = k * (SEED_MODULUS // g) + r.choice([0.0, 0.5])
        faults.append("clock.epoch")
    env["t0"] = t0
    if r.random() < 0.2:
        env["clock_jumps"] = [[r.randrange(0, 8), r.choice([-3.0, -1.0, -0.6, 2.0, 3600.0])]
                              for _ in range(r.choice([1, 2]))]
        faults.append("clock.jump")
    if r.random() < 0.2:
        lo = r.choice([300, 1000])
        width = nproc if nproc is not None else env["cpu_count"]
        env["pid_min"], env["pid_max"] = lo, lo + width + r.choice([1, 2, 3, width])
        env["pid_next"] = lo
        faults.append("pid.reuse")
    else:
        env["pid_next"] = r.choice([4243, 5000, 32000])
    sc["env"] = env
    sc["faults"] = faults
    sc["between_runs"] = {"unrelated_draws": r.choice([0, 1, 5, 1000]), "sleep": r.choice([0.0, 0.4, 2.5, 90.0]),
                          "new_session": r.random() < 0.5}
    sc["reuse_objects"] = r.random() < 0.4  # the repeat run re-uses the first run's engine / process / product objects
    if sc.get("nproc") != 1 and r.random() < 0.1:
        sc["env"]["task_fail_one_in"] = r.choice([2, 6])
        sc["faults"].append("pool.task_failed")
    # convergence rates: computed from the model, or left to the configuration's default (then regressed by the run)
    sc["rates"] = "default" if (engine == "mlmc_adaptive" and r.random() < 0.4) else "model"
    return sc


def shrink_candidates(sc):
    """simpler scenarios, most aggressive first; every candidate is a complete valid scenario"""
    import copy

    def mod(**kw):
        c = copy.deepcopy(sc)
        for k, v in kw.items():
            if "." in k:
                a, b = k.split(".")
                c[a][b] = v
            else:
                c[k] = v
        return c

    if sc["env"].get("clock_jumps"):
        c = mod()
        c["env"].pop("clock_jumps")
        yield c
    if "pid_max" in sc["env"]:
        c = mod()
        for k in ("pid_min", "pid_max"):
            c["env"].pop(k, None)
        c["env"]["pid_next"] = 5000
        yield c
    if sc["env"]["t0"] != 1_700_000_000.25:
        yield mod(**{"env.t0": 1_700_000_000.25})
    if sc["env"]["path_cost"] != 1e-6:
        yield mod(**{"env.path_cost": 1e-6, "env.spawn_cost": 1e-5})
    for smaller in (1, 2, 3, 5, 8):
        if smaller < sc["n"] and not (sc["engine"] == "mlmc_adaptive" and smaller < 4):
            yield mod(n=smaller)
    if sc["engine"] != "standard" and sc.get("max_level", 0) > sc.get("initial_level", 0):
        yield mod(max_level=sc["max_level"] - 1)
    if sc["nproc"] is None:
        yield mod(nproc=sc["env"]["cpu_count"])
    elif sc["nproc"] > 2:
        yield mod(nproc=2)
    elif sc["nproc"] == 2:
        yield mod(nproc=1)
    if sc["process"]["kind"] in ("copula", "copula_coupling", "sde", "sde_coupling"):
        br = sc["between_runs"]
        if br["unrelated_draws"] or br["sleep"] or br["new_session"]:
            yield mod(between_runs={"unrelated_draws": 0, "sleep": 0.0, "new_session": False})
        return
    if sc["product"].get("dates", 2) > 2:
        c = mod()
        c["product"]["dates"] = 2
        yield c
    if sc["product"]["kind"] not in ("call", "cds", "stoch_call"):
        c = mod()
        c["product"]["kind"] = "call"
        yield c
    if sc["process"].get("grid", {}).get("kind") not in (None, "fixed"):
        c = mod()
        c["process"]["grid"] = {"kind": "fixed", "h": 0.1, "n": 6}
        yield c
    if sc["process"]["model"] != "hem":
        c = mod()
        c["process"]["model"] = "hem"
        yield c
    if sc["process"].get("method") not in (None, "adapted1d"):
        c = mod()
        c["process"]["method"] = "adapted1d"
        yield c
    br = sc["between_runs"]
    if br["unrelated_draws"] or br["sleep"] or br["new_session"]:
        yield mod(between_runs={"unrelated_draws": 0, "sleep": 0.0, "new_session": False})
    if sc["seed"] not in (None, 0, 1):
        yield mod(seed=1)


# ------------------------------------------------------------------------------------------------
def _build_special(spec, pspec):
    """copula chains / couplings and SDE processes (public constructors only)"""
    from rpylib.distribution.sampling import SamplingMethod
    from rpylib.grid.spatial import CTMCUniformGrid
    from rpylib.product.payoff import PayoffOnTheFly, CDS
    from rpylib.product.product import Product
    from rpylib.product.underlying import Spot, NthDefaultTimes

    T = pspec["maturity"]
    kind = spec["kind"]
    if kind in ("copula", "copula_coupling"):
        from . import c02nd
        from .c03 import _pristine_copula_model
        from rpylib.process.coupling.couplinglevycopula import CouplingProcessLevyCopula
        from rpylib.process.markovchain.markovchainlevycopula import MarkovChainLevyCopula

        lcm = _pristine_copula_model(spec)
        grid = CTMCUniformGrid.create_from_fixed_nb_of_points(h=spec["grid"]["h"], nb_of_points=spec["grid"]["n"], dimension=2)
        method = SamplingMethod[c02nd.ND_METHODS[spec["method"]]]
        process = (CouplingProcessLevyCopula(lcm, grid, method) if kind == "copula_coupling" else MarkovChainLevyCopula(lcm, grid, method))
        if pspec["kind"] == "ntd":
            product = Product(payoff_underlying=NthDefaultTimes(default_levels=[-0.1, -0.1], index=1),
                              payoff=CDS(recovery_rate=0.4, spread=0.01, maturity=T, discounting=lcm.df), maturity=T)
        else:
            product = Product(payoff_underlying=Spot(), payoff=PayoffOnTheFly(_sum_payoff), maturity=T)
        return process, product
    from rpylib.model.levydrivensde.levydrivensde import LevyDrivenSDEModel, Constant, DiagX
    from rpylib.model.levymodel.levymodel import ModelType
    from rpylib.model.utils import create_levy_model
    from rpylib.process.coupling.couplingsde import CouplingSDE
    from rpylib.process.markovchain.markovchainsde import MarkovChainSDE

    mt, kw = {"hem": ("HEM", {}), "vg": ("VG", {}), "cgmy02": ("CGMY", dict(c=0.7, g=15.0, m=20.0, y=0.2))}[spec["driver"]]
    driver = create_levy_model(ModelType[mt])(**kw)
    model = LevyDrivenSDEModel(driver=driver, x0=1.0, a=Constant(1, 1, 0.5) if spec["coef"] == "const" else DiagX(1))
    grid = CTMCUniformGrid(h=spec["h"], model=model.driver)
    method = SamplingMethod.BINARYSEARCHTREEADAPTED1D
    process = CouplingSDE(model=model, grid=grid, method=method) if kind == "sde_coupling" else MarkovChainSDE(model, method, grid)
    product = Product(payoff_underlying=Spot(), payoff=PayoffOnTheFly(_first_payoff), maturity=T)
    return process, product


def _sum_payoff(u):
    return float(np.sum(u))


def _first_payoff(u):
    return float(np.ravel(u)[0])


def _build(sc):
    if sc["process"]["kind"] in ("copula", "copula_coupling", "sde", "sde_coupling"):
        process, product = _build_special(sc["process"], sc["product"])
    else:
        process = B.build_process(sc["process"])
        product = B.build_product(sc["product"], process.model)
    if sc["engine"] == "standard":
        from rpylib.montecarlo.configuration import ConfigurationStandard
        from rpylib.montecarlo.standard.engine import Engine

        cfg = ConfigurationStandard(mc_paths=sc["n"], seed=sc["seed"], nb_of_processes=sc["nproc"])
        eng = Engine(cfg, process)
        return eng, product, (lambda: eng.price(product))
    from rpylib.montecarlo.configuration import ConfigurationMultiLevel, compute_convergence_rates
    from rpylib.montecarlo.multilevel.engine import Engine

    kw = {}
    if sc.get("rates", "model") == "model":
        kw["convergence_rates"] = compute_convergence_rates(process.model.blumenthal_getoor_index())
    else:
        rngseam.ACTIVE.probes["c08.default_convergence_rates"] += 1  # nothing passed: the library's default object
    cfg = ConfigurationMultiLevel(initial_level=sc["initial_level"],
                                  maximum_level=sc["max_level"], initial_mc_paths=sc["n"], seed=sc["seed"],
                                  nb_of_processes=sc["nproc"], **kw)
    eng = Engine(cfg, process)
    if sc["engine"] == "mlmc_fixed":
        return eng, product, (lambda: eng.price_with_constant_mc_paths_and_level(product))
    return eng, product, (lambda: eng.price(product, sc["rmse"]))


def _observe(engine_kind, stats):
    """public observables of a finished run, as exact bytes"""
    obs = {}
    if engine_kind == "standard":
        obs["price"] = np.asarray(stats.price(), dtype=float)
        obs["mc_stddev"] = np.asarray(stats.mc_stddev(), dtype=float)
        arr = getattr(getattr(stats, "_payoff_statistics", None), "stats", None)
        if arr is not None:
            obs["payoffs"] = np.asarray(arr, dtype=float)
    else:
        obs["price"] = np.asarray(stats.price(), dtype=float)
        res = stats.mlmc_results
        obs["Nl"] = np.asarray(res.Nl, dtype=float)
        for lvl in range(len(res.Nl)):
            obs[f"fine{lvl}"] = np.asarray(stats.simulation_payoff_with_fine_process(level=lvl), dtype=float)
            obs[f"coarse{lvl}"] = np.asarray(stats.simulation_payoff_with_coarse_process(level=lvl), dtype=float)
    return obs


def _same(a, b):
    if a.keys() != b.keys():
        return False, "keys"
    for k in a:
        x, y = a[k], b[k]
        if x.shape != y.shape:
            return False, k + ".shape"
        if x.tobytes() != y.tobytes():
            if not np.array_equal(x, y, equal_nan=True):
                return False, k
    return True, None


def _run_once(wd, sc, run_index, reuse=None):
    wd.run_index = run_index
    mark = {"draws": len(wd.draws), "consumed": len(wd.consumed), "samples": len(wd.samples),
            "pools": len(wd.pool_inits), "batches": len(wd.row_batches), "control": len(wd.control),
            "uniforms": len(wd.uniform_log)}
    eng, product, go = reuse if reuse is not None else _build(sc)
    mark["built"] = (eng, product, go)
    mark["draws_after_build"] = len(wd.draws)
    try:
        stats = go()
        obs = _observe(sc["engine"], stats)
        err = None
    except HarnessError:
        raise
    except Exception as e:
        obs, err = None, f"{type(e).__name__}: {str(e)[:120]}"
    return obs, err, mark


def _site(cons):
    """seed call site without the wrapper frame: the rpylib frames above Configuration.initialisation_seed"""
    parts = cons.split("<")
    parts = [p for p in parts if not p.endswith("initialisation_seed")] or parts
    return "<".join(p.split(":")[-1] for p in parts[:2])


def _oracles_for_run(wd, sc, mark, end):
    """U1 U2 U3 U4 D over the slices of the ledgers that belong to one run"""
    V = []
    mode = "jump-times" if sc["product"]["kind"] in ("cds", "ntd", "stoch_call") or sc["process"]["kind"].startswith("sde") else "fixed-dates"
    cls = f"engine={sc['engine']}|mode={mode}|procs={'1' if sc['nproc'] == 1 else 'pool'}"
    draws = wd.draws[mark["draws"]:end["draws"]]
    # ---- U1 / U2 -------------------------------------------------------------------------------
    produced = {}  # (gen, fingerprint-before) -> first producing event
    last_seed = {}  # (gen, ctx) -> seed event
    u1_seen, u2_seen = set(), set()
    for ev in draws:
        gen, name, ctx, epoch, cons, size, before, after, _ = ev
        if name == "seed":
            last_seed[(gen, ctx)] = ev
            if (gen, after) in produced:
                first = produced[(gen, after)]
                rel = "same-context" if first[2] == ctx else "other-context"
                sig = f"C08.U2|re-seed onto a state that already produced variates|{rel}|gen={gen}|site={_site(cons)}|{cls}"
                if sig not in u2_seen:
                    u2_seen.add(sig)
                    V.append({"sig": sig, "oracle": "U2",
                              "detail": {"seed_event": [ctx, epoch, cons, size], "state_first_used_by": list(first[:6])}})
            continue
        if after == before:
            continue  # size-0 draw: nothing produced
        key = (gen, before)
        if key in produced:
            first = produced[key]
            if first[2] == ctx:
                rel = "same-context-after-reseed"
            else:
                s1, s2 = last_seed.get((gen, first[2])), last_seed.get((gen, ctx))
                if s1 is None and s2 is None:
                    rel = "contexts-share-inherited-state"
                elif s1 is None or s2 is None:
                    rel = "context-replays-unseeded-inherited-state"
                else:
                    rel = "contexts-seeded-alike"
            seed_ev = last_seed.get((gen, ctx))
            site = _site(seed_ev[4]) if seed_ev else "none"
            sig = f"C08.U1|same generator state produced variates twice|{rel}|gen={gen}|site={site}|{cls}"
            if sig not in u1_seen:
                u1_seen.add(sig)
                V.append({"sig": sig, "oracle": "U1",
                          "detail": {"first": list(first[:6]), "second": [gen, name, ctx, epoch, cons, size]}})
        else:
            produced[key] = ev
    # ---- U4 ------------------------------------------------------------------------------------
    for (pool_index, run, draw_pos, workers) in wd.pool_inits[mark["pools"]:end["pools"]]:
        fps = {}
        for (name, pid, f_np, f_py) in workers:
            for gen, fp in (("np", f_np), ("py", f_py)):
                if (gen, fp) in fps:
                    sig = f"C08.U4|pool workers start from identical generator state|gen={gen}|{cls}"
                    V.append({"sig": sig, "oracle": "U4",
                              "detail": {"pool": pool_index, "workers": [fps[(gen, fp)], name],
                                         "pids": [p for (n2, p, _, _) in workers], "t": repr(wd.now)}})
                else:
                    fps[(gen, fp)] = name
        used = {(ev[0], ev[6]) for ev in wd.draws[mark["draws"]:draw_pos] if ev[1] != "seed" and ev[6] != ev[7]}
        for (name, pid, f_np, f_py) in workers:
            for gen, fp in (("np", f_np), ("py", f_py)):
                if (gen, fp) in used:
                    sig = f"C08.U4|pool worker starts from a state that already produced variates|gen={gen}|{cls}"
                    V.append({"sig": sig, "oracle": "U4", "detail": {"pool": pool_index, "worker": name, "pid": pid}})
    # de-duplicate U4 signatures
    seen = set()
    V = [v for v in V if not (v["oracle"] == "U4" and (v["sig"] in seen or seen.add(v["sig"])))]
    # ---- U3 ------------------------------------------------------------------------------------
    cons = wd.consumed[mark["consumed"]:end["consumed"]]
    by_row = {}
    for c in cons:
        by_row.setdefault((c[0], c[1]), []).append(c)
    u3 = {}
    for (kind, serial), lst in by_row.items():
        if len(lst) > 1:
            chunks = {c[4] for c in lst}
            rel = "across-tasks" if len(chunks) > 1 else "within-one-task-or-loop"
            how = "+".join(sorted({c[2] for c in lst}))
            sig = f"C08.U3|pre-drawn row consumed more than once|{kind}|{rel}|how={how}|{cls}"
            u3.setdefault(sig, []).append((serial, len(lst)))
    for sig, rows in u3.items():
        V.append({"sig": sig, "oracle": "U3", "detail": {"rows_affected": len(rows), "max_multiplicity": max(m for _, m in rows),
                                                          "example_row_serial": rows[0][0]}})
    # ---- Uv: a uniform variate handed out twice by the library's variate helper ------------------------
    seen_u = {}
    dup_u, ex_u = 0, None
    for (run_i, lvl, ctxn, oid, arr) in wd.uniform_log[mark.get("uniforms", 0):end.get("uniforms", len(wd.uniform_log))]:
        for x in arr.tolist():
            if x in seen_u:
                dup_u += 1
                if ex_u is None:
                    ex_u = (seen_u[x], (lvl, ctxn, oid), x)
            else:
                seen_u[x] = (lvl, ctxn, oid)
    if dup_u:
        a_, b_, x_ = ex_u
        rel = "same-helper-object" if a_[2] == b_[2] else ("across-levels" if a_[0] != b_[0] else "across-helper-objects")
        sig = f"C08.Uv|a uniform variate was handed out twice by the variate helper|{rel}|{cls}"
        V.append({"sig": sig, "oracle": "Uv", "detail": {"duplicates": dup_u, "first": list(a_[:2]), "second": list(b_[:2]), "value": x_}})
    # ---- D -------------------------------------------------------------------------------------
    seen_diff = {}
    dups = 0
    example = None
    for s in wd.samples[mark["samples"]:end["samples"]]:
        d = s.get("diff")
        if d is None:
            continue
        flat = np.asarray(d).ravel()
        if np.count_nonzero(flat) < 2:
            continue
        key = (s["level"], flat.tobytes())
        if key in seen_diff:
            dups += 1
            example = example or (seen_diff[key], s["serial"])
        else:
            seen_diff[key] = s["serial"]
    if dups:
        sig = f"C08.D|two samples of one run carry bit-identical Brownian increments|{cls}"
        V.append({"sig": sig, "oracle": "D", "detail": {"duplicate_samples": dups, "example_serials": example}})
    return V


def execute(wd, sc):
    V, errors = [], []
    info = {}
    wd.track_uniforms = True
    wd.faults.update({f: 1 for f in sc.get("faults", [])})
    obs1, err1, m1 = _run_once(wd, sc, 0)
    end1 = {"draws": len(wd.draws), "consumed": len(wd.consumed), "samples": len(wd.samples),
            "pools": len(wd.pool_inits), "uniforms": len(wd.uniform_log)}
    if err1:
        errors.append({"kind": err1.split(":")[0], "msg": err1})
        wd.probes["c08.run_raised"] += 1
    else:
        wd.probes["c08.run_completed"] += 1
        V += _oracles_for_run(wd, sc, m1, end1)
        if sc["engine"] != "standard":
            wd.probes["c08.multilevel_run"] += 1
    if len(wd.row_batches) > 0:
        wd.probes["c08.predraw_batch"] += 1
    # seeding events within one clock second?
    seeds = [e for e in wd.events if e[0] == "clock.read"]
    secs = [int(float(e[2])) for e in seeds]
    if len(secs) != len(set(secs)):
        wd.probes["c08.same_second_seedings"] += 1
    n_seed_events = sum(1 for d in wd.draws[m1["draws"]:end1["draws"]] if d[1] == "seed" and d[0] == "np")
    # ---- R: repeatability ------------------------------------------------------------------------
    repeat = sc["seed"] is not None and sc["nproc"] == 1 and err1 is None
    if repeat:
        br = sc["between_runs"]
        wd.advance(br["sleep"])
        if br["new_session"]:
            g = sub_rng(wd.seed, "second-session")
            ctx = Context("parent2", wd.alloc_pid(), np.random.RandomState(g.getrandbits(32)),
                          __import__("random").Random(g.getrandbits(64)), "parent")
            wd.contexts.append(ctx)
            wd.parent = ctx
            wd.current = ctx
            wd.log("new_session", ctx.pid)
        if br["unrelated_draws"]:
            np.random.normal(size=br["unrelated_draws"])  # goes through the seam, current context
            __import__("random").random()
        wd.faults["history.repeat_run"] += 1
        reuse = m1.get("built") if sc.get("reuse_objects") else None
        if reuse is not None:
            wd.faults["history.engine_reused"] += 1
        obs2, err2, m2 = _run_once(wd, sc, 1, reuse=reuse)
        if err2:
            errors.append({"kind": err2.split(":")[0], "msg": "second run: " + err2})
        else:
            wd.probes["c08.repeat_compared"] += 1
            same, where = _same(obs1, obs2)
            if not same:
                mode = "jump-times" if sc["product"]["kind"] in ("cds", "ntd", "stoch_call") or sc["process"]["kind"].startswith("sde") else "fixed-dates"
                seedcls = "seed=0" if sc["seed"] == 0 else "seed=int"
                objs = "same-objects" if reuse is not None else "fresh-objects"
                sig = f"C08.R|seeded single-process run not repeatable|engine={sc['engine']}|mode={mode}|{seedcls}|{objs}"
                V.append({"sig": sig, "oracle": "R",
                          "detail": {"first_difference_in": where, "price_run1": obs1["price"].tolist(),
                                     "price_run2": obs2["price"].tolist()}})
            end2 = {"draws": len(wd.draws), "consumed": len(wd.consumed), "samples": len(wd.samples),
                    "pools": len(wd.pool_inits), "uniforms": len(wd.uniform_log)}
            for v in _oracles_for_run(wd, sc, m2, end2):
                if v["sig"] not in {x["sig"] for x in V}:
                    V.append(v)
    # ---- distinctness key --------------------------------------------------------------------------
    assign = tuple((e[2], e[3]) for e in wd.events if e[0] == "task.start")
    traj = tuple((c[1], c[3]) for c in wd.control if c[0] == "level.start")
    seedpat = tuple((d[2], d[0]) for d in wd.draws if d[1] == "seed")
    import hashlib
    key = hashlib.sha256(repr((sc["engine"], sc["process"]["kind"], sc["product"]["kind"], sc["seed"] is None,
                               sc["nproc"], assign, traj, seedpat)).encode()).hexdigest()[:16]
    nontrivial = err1 is None and (wd.probes.get("pool.worker_ran_2plus_tasks", 0) > 0 or n_seed_events >= 2
                                   or len(wd.row_batches) > 0 or repeat)
    info = {"n_samples": len(wd.samples), "n_draws": len(wd.draws), "n_seed_events": n_seed_events,
            "price": None if obs1 is None else obs1["price"].tolist()}
    return {"violations": V, "errors": errors, "info": info, "key": key, "nontrivial": nontrivial}


def summarise(sc, o):
    return {"scenario": {k: sc[k] for k in ("engine", "process", "product", "seed", "nproc", "n") if k in sc},
            "env": sc["env"], "decisions": len(o.get("trace", [])), "events": o.get("n_events"),
            "violations": [v["sig"] for v in o["violations"]], "info": o.get("info")}
