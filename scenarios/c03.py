"""C03 - level coupling keeps the coarse path in the previous level's law (telescoping).

Workload: the 1-d coupling (``CouplingMarkovChain``, also as driver of ``CouplingSDE``) taken through the REAL multilevel
engine (fixed-level and adaptive) so that levels arise exactly as in production: deepcopy of the previous level,
``next_level``, grid refined in place, frozen coarse drift, path-manager chain. Every level transition and every coupled
jump of every path is observed from outside.
Oracles:
  a  per coupled jump: even fine increment => coarse jump equals the fine jump; odd => the coarse jump is the left or
     right neighbour of the fine state, which is a state of the previous level's grid (monitored precondition: the
     level-l grid holds the level-(l-1) grid at even indices, origin index doubled, bounds unchanged).
  b  coupling probability by boundary-targeted variates: for every odd increment visited, ``coupling_state`` is called
     on a copy of the level's object with its uniform scripted to p_ref - delta (must go right) and p_ref + delta (must
     go left), p_ref = mass(right half-cell) / mass(cell) from the model's own mass function; the telescoping sum
     sum_x rate_f(x) P(x -> y) = rate_c(y) is evaluated numerically at every level transition.
  c  cross-level: coarse deterministic path of level l = fine deterministic path of level l-1; coarse diffusion
     coefficient of level l = fine one of level l-1.
"""
import copy
import hashlib

import numpy as np

from simkit import rngseam
from simkit.world import sub_rng, HarnessError
from . import builders as B

ID = "C03"
RULE = ("one world per seed: model (7) x grid (uniform / fixed / geometric / probability-step, small) x list-returning sampling method x "
        "engine variant (fixed-level up to level 1-3 | adaptive | CouplingSDE fixed-level) x product (1-4 dates or "
        "jump-time mode) x n paths; variates from the seeded generators, coupling uniforms boundary-targeted in the "
        "probing step. non-trivial = >=1 level transition and >=1 odd fine increment probed; distinct = hash(model, grid, "
        "method, variant, levels, set of odd increments probed)")
REAL = ["rpylib.process.coupling.couplinglevycopula (2-d)", "rpylib.process.coupling.couplingmarkovchain", "rpylib.process.coupling.couplingsde (1-d driver)",
        "rpylib.process.markovchain.markovchain", "rpylib.grid.spatial (refine)", "rpylib.montecarlo.multilevel.engine",
        "samplers, models (mass)"]
STUB = ["coupling uniform scripted at the RNG seam during the probing step", "clock/pid/entropy seams",
        "gmpy2.qdiv, tqdm"]
ASSUMPTIONS = ["the model's own mass() is the reference for cell masses (C09/C12 trusted); rates from create_q_vector (C01)",
               "the Levy-copula coupling is covered in 2 dimensions on small fixed grids (15% of the worlds); 3-d and the "
               "copula-driven SDE coupling are not",
               "cell boundaries are the grid's own middle() (arithmetic, or equal-probability for probability-step grids)"]
TIERS = {
    "quick": {"worlds": 2500, "wall": 520, "shrink_budget": 40,
              "required_probes": ["c03.level_transition", "c03.odd_increment_probed", "c03.even_increment_seen",
                                  "c03.telescoping_checked", "c03.adaptive_run", "c03.sde_run", "c03.nd_run",
                                  "c03.nd_telescoping_checked", "c03.nd_odd_increment_probed", "c03.nd_odd_coordinate_seen"]},
    "thorough": {"worlds": 60000, "wall": 2900, "shrink_budget": 100,
                 "required_probes": ["c03.level_transition", "c03.odd_increment_probed", "c03.even_increment_seen",
                                     "c03.telescoping_checked", "c03.adaptive_run", "c03.sde_run", "c03.level_3"]},
}
DELTA = 1e-9
_installed = False


def _st():
    wd = rngseam.ACTIVE
    if wd is None:
        return None
    return getattr(wd, "c03", None)


def _install():
    global _installed
    if _installed:
        return
    import rpylib.process.coupling.couplingmarkovchain as cmc
    import rpylib.process.markovchain.markovchain as mc

    o_next = cmc.CouplingMarkovChain.next_level

    def next_level(self, mc_paths, path_managers, product, max_step_epsilon=None):
        st = _st()
        if st is None:
            return o_next(self, mc_paths, path_managers, product, max_step_epsilon)
        ts = np.array([0.0, 1.0, 2.5])
        before = {
            "level": self.level,
            "grid_type": type(self.grid).__name__,
            "axis": np.array(self.grid.axes[0], dtype=float, copy=True),
            "origin": int(self.grid.origin_coordinate.value),
            "h": float(self.grid.h),
            "trunc": tuple(float(x) for x in self.grid.truncations[0]),
            "sigma_fine": float(self.fine_process.equivalent_diffusion_coefficient),
            "det_fine": None,
            "q": None,
        }
        try:
            before["det_fine"] = np.array(self.fine_process.deterministic_path(ts), dtype=float)
        except Exception:
            pass
        try:
            from rpylib.distribution.samplingfactory import create_q_vector

            before["q"] = np.array(create_q_vector(self.fine_process.model.levy_triplet.nu, self.grid), dtype=float)
        except Exception:
            pass
        r = o_next(self, mc_paths, path_managers, product, max_step_epsilon)
        st["transitions"].append((before, self, path_managers))
        st["hook"](before, self, path_managers)
        return r

    cmc.CouplingMarkovChain.next_level = next_level

    o_slice = cmc.CouplingSimulation.coupling_states_for_a_slice

    def coupling_states_for_a_slice(self, slice_fine_states):
        out = o_slice(self, slice_fine_states)
        st = _st()
        if st is not None:
            st["slices"].append((self.coupling_process.level, [int(i) for i in slice_fine_states],
                                 [float(x) for x in np.asarray(out, dtype=float).ravel()]))
        return out

    cmc.CouplingSimulation.coupling_states_for_a_slice = coupling_states_for_a_slice

    o_cs = cmc.CouplingSimulation.coupling_state

    def coupling_state(self, increment):
        st = _st()
        if st is not None and "coupling_calls" in st:
            st["coupling_calls"].append(int(increment))
        return o_cs(self, increment)

    cmc.CouplingSimulation.coupling_state = coupling_state

    def wrap_chain(cls_):
        o_sim = cls_.simulate_markov_chain

        def simulate_markov_chain(self):
            chain = o_sim(self)
            st = _st()
            if st is not None and "last_chain" in st:
                try:
                    st["last_chain"] = [int(i) for sl in chain.states_increments for i in sl]
                except Exception:
                    st["last_chain"] = None
            return chain

        cls_.simulate_markov_chain = simulate_markov_chain

    wrap_chain(mc.MCSimulationFixedTimes)
    wrap_chain(mc.MCSimulationWithJumpTimes)
    o_pair = cmc.CouplingMarkovChain.simulate_one_path_with_coupling

    def simulate_one_path_with_coupling(self):
        st0 = _st()
        n0 = len(st0["coupling_calls"]) if st0 is not None and "coupling_calls" in st0 else 0
        if st0 is not None and "last_chain" in st0:
            st0["last_chain"] = None
        path = o_pair(self)
        if st0 is not None and "coupling_calls" in st0 and st0.get("last_chain") is not None:
            st0["per_jump"].append((self.level, list(st0["last_chain"]), list(st0["coupling_calls"][n0:])))
        st = _st()
        if st is not None and "pairs" in st:
            try:
                sim = type(getattr(self, "_path_coupling_simulation", None)).__name__
                st["pairs"].append((self.level, np.array(path.times(), dtype=float, copy=True),
                                    np.array(path.jump_path, dtype=float, copy=True), sim))
            except Exception:
                pass
        return path

    cmc.CouplingMarkovChain.simulate_one_path_with_coupling = simulate_one_path_with_coupling
    _installed = True


def generate(seed, tier="quick"):
    r = sub_rng(seed, "c03.scenario")
    if r.random() < 0.15:
        from . import c02nd

        proc = c02nd.generate_process(r)
        proc["margins"] = proc["margins"][:2]  # 2-d: the refined 3-d grids are too large for a quick check
        proc["grid"] = {"kind": "fixed", "h": proc["grid"]["h"], "n": 4}
        return {"world_seed": seed, "process": proc, "variant": "copula", "max_level": r.choice([1, 1, 2]),
                "n": r.choice([3, 6]), "product": {"kind": "sum", "maturity": r.choice([0.5, 1.0])}, "rmse": 1.0,
                "seed": r.choice([None, 3])}
    model = r.choice(["hem", "hem_lowint", "hem_nosigma", "merton", "cgmy02", "cgmy12", "vg"])
    gk = r.choice(["uniform", "uniform", "fixed", "geometric", "probstep"])
    grid = {"uniform": {"kind": "uniform", "h": r.choice([0.05, 0.1, 0.08])},
            "probstep": {"kind": "probstep", "h": r.choice([0.05, 0.1]), "pstep": r.choice([0.1, 0.2, 0.3])},
            "fixed": {"kind": "fixed", "h": r.choice([0.05, 0.1]), "n": r.choice([6, 10, 16])},
            "geometric": {"kind": "geometric", "h": r.choice([0.05, 0.1]), "n": r.choice([3, 5, 8])}}[gk]
    variant = r.choice(["fixed", "fixed", "adaptive", "sde"])
    stochastic = r.random() < 0.3
    product = ({"kind": "cds", "maturity": r.choice([0.5, 1.0])} if stochastic else
               {"kind": r.choice(["call", "put"]), "maturity": r.choice([0.5, 1.0]), "strike": 100.0,
                "dates": r.choice([2, 2, 3, 4])})
    return {"world_seed": seed, "process": {"kind": "coupling", "model": model, "grid": grid,
                                            "method": r.choice(B.COUPLING_METHODS)},
            "variant": variant, "max_level": r.choice([1, 2, 2, 3]), "n": r.choice([3, 6, 12]),
            "product": product, "rmse": r.choice([4.0, 2.0]), "seed": r.choice([None, 3])}


def shrink_candidates(sc):
    def mod(**kw):
        c = copy.deepcopy(sc)
        c.update(kw)
        return c

    if sc["variant"] == "copula":
        if sc["max_level"] > 1:
            yield mod(max_level=1)
        if sc["n"] > 3:
            yield mod(n=3)
        return
    if sc["variant"] != "fixed":
        yield mod(variant="fixed")
    if sc["max_level"] > 1:
        yield mod(max_level=sc["max_level"] - 1)
    if sc["n"] > 3:
        yield mod(n=3)
    if sc["process"]["grid"].get("kind") != "fixed":
        c = mod()
        c["process"]["grid"] = {"kind": "fixed", "h": 0.1, "n": 6}
        yield c
    if sc["process"]["model"] != "hem":
        c = mod()
        c["process"]["model"] = "hem"
        yield c
    if sc["process"]["method"] != "adapted1d":
        c = mod()
        c["process"]["method"] = "adapted1d"
        yield c
    if sc["product"]["kind"] == "cds" or sc["product"].get("dates", 2) > 2:
        yield mod(product={"kind": "call", "maturity": 0.5, "strike": 100.0, "dates": 2})


def execute(wd, sc):
    if sc["variant"] == "copula":
        return execute_nd(wd, sc)
    from rpylib.montecarlo.configuration import ConfigurationMultiLevel, compute_convergence_rates
    from rpylib.montecarlo.multilevel.engine import Engine
    from rpylib.process.coupling.couplingmarkovchain import CouplingSimulation
    from rpylib.distribution.samplingfactory import create_q_vector

    _install()
    V, errors = [], []
    probed = set()

    def add(sig, detail):
        if not any(v["sig"] == sig for v in V):
            V.append({"sig": sig, "oracle": sig.split("|")[0], "detail": detail})

    levels = {}  # level -> snapshot of the grid (axis, origin) the level's object works on
    frozen = []  # (level, path manager list, index, coarse deterministic path, fine deterministic path) at creation
    chain_drift = {}  # level -> (drift of the level-(l-1) chain, drift of the level-l chain)
    level_sigma = {}  # level -> (diffusion coefficient of the level-(l-1) chain, of the level-l chain)
    pristine_grid = {"g": None}

    script_u = {"u": None}

    def script(wd_, ctx, fname, cons, a, k, val):
        if script_u["u"] is not None and fname == "np.uniform" and "Uniform.sample" in cons:
            wd_.faults["rng.boundary_targeted_uniform"] += 1
            return np.full(np.asarray(val).shape, script_u["u"])
        return val

    wd.script = script

    def hook(before, cp, path_managers):
        """runs right after next_level returned: `cp` is now at level before['level'] + 1"""
        lvl = cp.level
        wd.probes["c03.level_transition"] += 1
        if lvl >= 3:
            wd.probes["c03.level_3"] += 1
        axis = np.array(cp.grid.axes[0], dtype=float)
        origin = int(cp.grid.origin_coordinate.value)
        levels[lvl] = (axis.copy(), origin)
        levels.setdefault(before["level"], (before["axis"], before["origin"]))
        cls = f"level-transition|method={sc['process']['method']}"
        # ---- monitored precondition: nesting (C13) -----------------------------------------------------
        nested = (axis.size == 2 * before["axis"].size - 1 and np.array_equal(axis[::2], before["axis"])
                  and origin == 2 * before["origin"] and abs(cp.grid.h - before["h"] / 2) <= 1e-15)
        if not nested:
            add("C03.pre|refined grid does not hold the previous grid at even indices (precondition of the coupling)|" + cls,
                {"level": lvl, "old_size": int(before["axis"].size), "new_size": int(axis.size), "origin": origin})
            return
        # the grid of a level is of the kind the run was given, and the states inserted by the refinement are the cell
        # boundaries of THAT kind of grid (a pristine grid object of the scenario's specification is the reference): the
        # engines deep-copy the previous level's object before refining it
        if pristine_grid["g"] is not None:
            g0 = pristine_grid["g"]
            if type(cp.grid).__name__ != type(g0).__name__ or before["grid_type"] != type(g0).__name__:
                add("C03.pre|the grid of a level is not of the kind of grid the run was given (lost in a copy)|" + cls,
                    {"level": lvl, "given": type(g0).__name__, "before_refinement": before["grid_type"], "after": type(cp.grid).__name__})
            else:
                old = before["axis"]
                # (next to the origin the boundary is +-h/2 of the CURRENT step: not a function of the two states alone)
                keep = np.array([a_ != 0.0 and b_ != 0.0 for a_, b_ in zip(old[:-1], old[1:])])
                exp_new = np.array([float(g0.middle(float(a_), float(b_))) if k_ else np.nan
                                    for a_, b_, k_ in zip(old[:-1], old[1:], keep)])
                if not np.allclose(axis[1::2][keep], exp_new[keep], rtol=0.0, atol=1e-6):  # a probability-step boundary is a root found numerically
                    add("C03.pre|states inserted by the refinement are not the cell boundaries of the kind of grid the run was given|" + cls,
                        {"level": lvl, "inserted": axis[1::2].tolist()[:4], "expected": exp_new.tolist()[:4]})
        # ---- c: cross-level --------------------------------------------------------------------------------
        if abs(float(cp.equivalent_diffusion_coefficient_coarse) - before["sigma_fine"]) > 1e-15 * (1 + before["sigma_fine"]):
            add("C03.c|coarse diffusion coefficient is not the fine coefficient of the previous level|" + cls,
                {"level": lvl, "coarse": float(cp.equivalent_diffusion_coefficient_coarse), "previous_fine": before["sigma_fine"]})
        if abs(float(cp.equivalent_diffusion_coefficient_fine) - float(cp.fine_process.equivalent_diffusion_coefficient)) > 0:
            add("C03.c|fine diffusion coefficient of the coupling is not the one of its fine chain|" + cls, {"level": lvl})
        if path_managers is not None and before["det_fine"] is not None:
            ts = np.array([0.0, 1.0, 2.5])
            pair = np.array(path_managers[-1].deterministic_path(ts), dtype=float)
            fine_now = np.array(cp.fine_process.deterministic_path(ts), dtype=float)
            sc_ = 1.0 + np.max(np.abs(before["det_fine"]))
            if not np.allclose(pair[1], before["det_fine"], rtol=1e-12, atol=1e-12 * sc_):
                add("C03.c|coarse deterministic path is not the fine deterministic path of the previous level|" + cls,
                    {"level": lvl, "coarse": pair[1].tolist(), "previous_fine": before["det_fine"].tolist()})
            if not np.allclose(pair[0], fine_now, rtol=1e-12, atol=1e-12 * sc_):
                add("C03.c|fine deterministic path of the pair is not the one of the fine chain|" + cls, {"level": lvl})
            frozen.append((lvl, path_managers, len(path_managers) - 1, before["det_fine"].copy(), fine_now.copy()))
        # diffusion coefficients of the pair as the level is created: (previous level's fine one, this level's fine one)
        level_sigma[lvl] = (before["sigma_fine"], float(cp.fine_process.equivalent_diffusion_coefficient))
        if before["det_fine"] is not None:
            # chain drifts per unit time: previous level (-> coarse component) and this level (-> fine component)
            chain_drift[lvl] = (float(before["det_fine"][1] - before["det_fine"][0]),
                                float(np.ravel(cp.fine_process.process_drift())[0]))
        # ---- b: telescoping sum over all fine states --------------------------------------------------------
        mass = cp.fine_process.model.mass

        def mid(a_, b_):
            # the grid's own cell boundary (arithmetic middle, or the equal-probability point of a probability-step grid)
            return float(cp.grid.middle(float(a_), float(b_)))

        q_f = np.array(create_q_vector(cp.fine_process.model.levy_triplet.nu, cp.grid), dtype=float)
        q_c = before["q"]
        if q_c is not None:
            agg = np.zeros_like(q_c)
            for pos in range(axis.size):
                if pos == origin:
                    continue
                if pos % 2 == 0:
                    agg[pos // 2] += q_f[pos]
                else:
                    x = axis[pos]
                    ml_ = mid(axis[pos - 1], x)
                    mr_ = mid(x, axis[pos + 1])
                    vr, vl_ = mass(x, mr_), mass(ml_, x)
                    pr = vr / (vl_ + vr) if (vl_ + vr) > 0 else 0.5
                    agg[(pos + 1) // 2] += q_f[pos] * pr
                    agg[(pos - 1) // 2] += q_f[pos] * (1 - pr)
            # the two states next to the origin send part of their mass to the coarse origin cell: excluded
            keep = [i for i in range(q_c.size) if i != before["origin"]]
            scale = 1.0 + np.max(np.abs(q_c))
            err = np.abs(agg[keep] - q_c[keep])
            wd.probes["c03.telescoping_checked"] += 1
            # odd neighbours of the origin: mass moved to the coarse origin (no jump) - compare the total instead
            if np.max(err) > 1e-8 * scale:
                j = keep[int(np.argmax(err))]
                near = "next-to-origin" if abs(j - before["origin"]) == 1 else "elsewhere"
                add(f"C03.b|fine rates pushed through the coupling do not give the coarse chain's rates|{near}|" + cls,
                    {"level": lvl, "coarse_state_index": j, "pushed": float(agg[j]), "coarse_rate": float(q_c[j])})
        # ---- b: boundary-targeted coupling uniforms on a copy -----------------------------------------------
        ctx = wd.current
        saved = ctx.nprs.get_state(legacy=True)
        try:
            probe = copy.deepcopy(cp)
            sim = CouplingSimulation(coupling_process=probe)
            odd = [pos for pos in range(1, axis.size - 1) if (pos - origin) % 2 != 0]
            g = sub_rng(wd.seed, f"c03.probe.{lvl}")
            for pos in g.sample(odd, min(len(odd), 8)):
                inc = pos - origin
                x = axis[pos]
                ml_, mr_ = mid(axis[pos - 1], x), mid(x, axis[pos + 1])
                vr, vl_ = mass(x, mr_), mass(ml_, x)
                if not (vl_ + vr) > 0:
                    continue
                p_ref = vr / (vl_ + vr)
                wd.probes["c03.odd_increment_probed"] += 1
                probed.add((lvl, inc))
                for u, expect, name in ((p_ref - DELTA, axis[pos + 1], "right"), (p_ref + DELTA, axis[pos - 1], "left")):
                    if not (0.0 <= u < 1.0):
                        continue
                    script_u["u"] = u
                    try:
                        got = float(sim.coupling_state(inc))
                    finally:
                        script_u["u"] = None
                    if got != expect:
                        add(f"C03.b|coupling probability of an odd fine state is not mass(right half-cell)/mass(cell)|expected-{name}|" + cls,
                            {"level": lvl, "increment": inc, "p_ref": p_ref, "u": u, "got": got, "expected": float(expect)})
            # even increments are copied
            even = [pos for pos in range(axis.size) if (pos - origin) % 2 == 0 and pos != origin]
            for pos in g.sample(even, min(len(even), 4)):
                got = float(sim.coupling_state(pos - origin))
                if got != axis[pos]:
                    add("C03.a|a fine jump landing on a coarse-grid state is not copied unchanged|" + cls,
                        {"level": lvl, "increment": pos - origin, "got": got, "expected": float(axis[pos])})
        except HarnessError:
            raise
        except Exception as e:
            errors.append({"kind": type(e).__name__, "msg": f"probe at level {lvl}: " + str(e)[:140]})
        finally:
            ctx.nprs.set_state(saved)
            ctx.fp_np = __import__("simkit.world", fromlist=["fp_np"]).fp_np(ctx.nprs)

    wd.c03 = {"transitions": [], "slices": [], "hook": hook, "pairs": [], "coupling_calls": [], "last_chain": None, "per_jump": []}
    if sc["variant"] == "sde":
        wd.record_values = True  # the normal variates of the level-0 paths are part of the reference below
    try:
        if sc["variant"] == "sde":
            from rpylib.model.levymodel.levymodel import ModelType
            from rpylib.model.utils import create_levy_model
            from rpylib.model.levydrivensde.levydrivensde import LevyDrivenSDEModel, Constant
            from rpylib.process.coupling.couplingsde import CouplingSDE
            from rpylib.grid.spatial import CTMCUniformGrid
            from rpylib.product.payoff import PayoffOnTheFly
            from rpylib.product.product import Product
            from rpylib.product.underlying import Spot

            mt, kw = {"hem": ("HEM", {}), "hem_lowint": ("HEM", {}), "hem_nosigma": ("HEM", {}), "merton": ("HEM", {}),
                      "cgmy02": ("CGMY", dict(c=0.7, g=15.0, m=20.0, y=0.2)), "cgmy12": ("CGMY", dict(c=0.019, g=2.0, m=4.0, y=1.2)),
                      "vg": ("VG", {})}[sc["process"]["model"]]
            model = LevyDrivenSDEModel(driver=create_levy_model(ModelType[mt])(**kw), x0=1.0, a=Constant(1, 1, 1.0))
            grid = CTMCUniformGrid(h=sc["process"]["grid"]["h"], model=model.driver)
            cp = CouplingSDE(model=model, grid=grid, method=B.METHODS["adapted1d"])
            ndates = int(sc["product"].get("dates", 2))
            und_ = Spot() if ndates <= 2 else B.DatedSpot(ndates)  # several product dates: the driver jumps date interval by date interval
            if ndates > 2:
                wd.probes["c03.sde_run_with_several_dates"] += 1
            product = Product(payoff_underlying=und_, payoff=PayoffOnTheFly(lambda u: float(np.ravel(u)[0])),
                              maturity=sc["product"]["maturity"])
            cfg = ConfigurationMultiLevel(initial_level=0, maximum_level=sc["max_level"], initial_mc_paths=sc["n"],
                                          nb_of_processes=1, seed=sc["seed"])
            Engine(cfg, cp).price_with_constant_mc_paths_and_level(product)
            wd.probes["c03.sde_run"] += 1
        else:
            cp = B.build_process(sc["process"])
            try:
                pristine_grid["g"] = B.build_grid(sc["process"]["grid"], cp.model)
            except Exception:
                pristine_grid["g"] = None
            product = B.build_product(sc["product"], cp.model)
            if sc["variant"] == "fixed":
                cfg = ConfigurationMultiLevel(initial_level=0, maximum_level=sc["max_level"], initial_mc_paths=sc["n"],
                                              nb_of_processes=1, seed=sc["seed"])
                Engine(cfg, cp).price_with_constant_mc_paths_and_level(product)
            else:
                cr = compute_convergence_rates(cp.model.blumenthal_getoor_index())
                cfg = ConfigurationMultiLevel(convergence_rates=cr, initial_level=2, maximum_level=2 + sc["max_level"] - 1,
                                              initial_mc_paths=max(4, sc["n"]), nb_of_processes=1, seed=sc["seed"])
                Engine(cfg, cp).price(product, sc["rmse"])
                wd.probes["c03.adaptive_run"] += 1
    except HarnessError:
        wd.script = None
        raise
    except Exception as e:
        import traceback

        errors.append({"kind": type(e).__name__, "msg": str(e)[:140], "where": traceback.extract_tb(e.__traceback__)[-1].name})
        wd.probes["c03.run_raised"] += 1
    wd.script = None
    # ---- c (history): the drifts frozen when a level was built are still the same after the later levels ------
    ts_ = np.array([0.0, 1.0, 2.5])
    for (lvl, pms, idx, det_c, det_f) in frozen:
        try:
            pair = np.array(pms[idx].deterministic_path(ts_), dtype=float)
        except Exception:
            continue
        wd.probes["c03.frozen_drift_rechecked"] += 1
        sc_ = 1.0 + np.max(np.abs(det_c))
        if not np.allclose(pair[1], det_c, rtol=1e-12, atol=1e-12 * sc_) or not np.allclose(pair[0], det_f, rtol=1e-12, atol=1e-12 * sc_):
            add(f"C03.c|deterministic paths of a level changed after later levels were built|method={sc['process']['method']}",
                {"level": lvl, "coarse_now": pair[1].tolist(), "coarse_at_creation": det_c.tolist()})
    # ---- c (SDE coupling): with a = 1 the drift component of each half of the pair is (chain drift) * t ------------
    if sc["variant"] == "sde":
        T_ = sc["product"]["maturity"]
        lvl0_drift = {0: chain_drift[1][0]} if 1 in chain_drift else {}
        for smp in wd.samples:
            lvl = smp.get("level")
            if "drift" not in smp or not lvl or lvl not in chain_drift:
                continue
            dr = np.asarray(smp["drift"], dtype=float)
            if dr.ndim != 3:
                continue
            mu_c, mu_f = chain_drift[lvl]
            wd.probes["c03.sde_pair_drift_checked"] += 1
            got_f, got_c = dr[0].ravel()[-1] / T_, dr[1].ravel()[-1] / T_
            if abs(got_f - mu_f) > 1e-10 * (1 + abs(mu_f)):
                add("C03.c|fine component of the SDE pair is not driven with the drift of its level's chain|sde-coupling",
                    {"level": lvl, "got": float(got_f), "expected": mu_f})
            if abs(got_c - mu_c) > 1e-10 * (1 + abs(mu_c)):
                mech = "uses-the-level-0-drift" if 0 in lvl0_drift and abs(got_c - lvl0_drift[0]) <= 1e-10 * (1 + abs(got_c)) and lvl >= 2 else "other"
                add(f"C03.c|coarse component of the SDE pair is not driven with the drift of the previous level's chain|{mech}|sde-coupling",
                    {"level": lvl, "got": float(got_c), "expected": mu_c})
    # ---- c (paths, level 0 of the SDE runs): with a = 1 the diffusion part of a level-0 path is the level-0 chain's
    # coefficient times the Brownian increments it drew - the coefficient the coarse component of level 1 is given
    if sc["variant"] == "sde" and wd.c03["transitions"]:
        first = min(wd.c03["transitions"], key=lambda t_: t_[0]["level"])[0]
        if first["level"] == 0:
            sigma0 = float(first["sigma_fine"])
            normals = [np.asarray(d[8], dtype=float).ravel() for d in wd.draws
                       if d[0] == "np" and d[1] == "normal" and d[8] is not None and "simulate_diffusion" in d[4]
                       and "with_coupling" not in d[4]]
            lvl0 = [smp for smp in wd.samples if smp.get("level") == 0 and "drift" in smp and "diff" in smp]
            if len(normals) == len(lvl0):
                for w_, smp in zip(normals, lvl0):
                    d_ = np.asarray(smp["diff"], dtype=float)
                    t_ = np.asarray(smp["times"], dtype=float)
                    if d_.ndim != 2 or d_.shape[0] != 1 or w_.size != t_.size - 1:
                        continue
                    wd.probes["c03.level0_diffusion_checked"] += 1
                    exp_ = sigma0 * np.sqrt(np.diff(t_)) * w_
                    got_ = np.diff(d_[0])
                    if not np.allclose(got_, exp_, rtol=1e-10, atol=1e-13 * (1.0 + np.max(np.abs(exp_), initial=0.0))):
                        zero = bool(np.all(got_ == 0.0))
                        add(f"C03.c|diffusion part of a level-0 path is not the level-0 coefficient (the one the coarse component of level 1 gets) times its Brownian increments|{'no-diffusion-at-all' if zero else 'other'}|sde-coupling",
                            {"sigma_level_0": sigma0, "got": got_.tolist()[:4], "expected": exp_.tolist()[:4]})
                        break
            else:
                wd.probes["c03.level0_normals_not_attributed"] += 1
    # ---- c (paths): the two diffusion components of every simulated pair are ONE Brownian path scaled by the level's
    # and by the previous level's coefficient: sigma_(l-1) * dW_fine-component == sigma_l * dW_coarse-component
    if sc["variant"] != "sde":
        for smp in wd.samples:
            lvl = smp.get("level")
            if not lvl or lvl not in level_sigma or "diff" not in smp:
                continue
            d = np.asarray(smp["diff"], dtype=float)
            if d.ndim != 2 or d.shape[0] != 2 or d.shape[1] < 2:
                continue
            s_c, s_f = level_sigma[lvl]
            inc_f, inc_c = np.diff(d[0]), np.diff(d[1])
            if s_f == 0.0 and s_c == 0.0:
                continue
            wd.probes["c03.pair_diffusion_checked"] += 1
            if s_f != s_c:
                wd.probes["c03.pair_diffusion_checked_with_level_dependent_sigma"] += 1
            scale = max(abs(s_c), abs(s_f)) * (np.max(np.abs(inc_f)) + np.max(np.abs(inc_c))) + 1e-300
            if not np.allclose(s_c * inc_f, s_f * inc_c, rtol=1e-10, atol=1e-13 * scale):
                same = np.allclose(inc_f, inc_c, rtol=1e-10, atol=1e-13 * scale)
                mech = "both-components-carry-the-same-coefficient" if same and s_f != s_c else "other"
                add(f"C03.c|diffusion components of a simulated pair are not one Brownian path scaled by the level's and the previous level's coefficients|{mech}|method={sc['process']['method']}",
                    {"level": lvl, "sigma_previous": s_c, "sigma_level": s_f, "fine_increments": inc_f.tolist()[:4],
                     "coarse_increments": inc_c.tolist()[:4]})
                break
    # ---- a (paths): every fine jump of a simulated pair gets its own coupling decision, in order (the coarse path is
    # the previous level's chain only if the jumps are coupled one by one: a decision shared by several jumps to the same
    # state keeps every marginal probability and still changes the law of the coarse path)
    for (lvl, fine_incs, coupled_incs) in wd.c03.get("per_jump", []):
        wd.probes["c03.per_jump_coupling_checked"] += 1
        if len(fine_incs) >= 2 and len(set(fine_incs)) < len(fine_incs):
            wd.probes["c03.path_with_repeated_fine_state"] += 1
        if fine_incs != coupled_incs:
            add(f"C03.a|the fine jumps of a simulated pair are not coupled one by one, in order|{'fewer-coupling-decisions-than-jumps' if len(coupled_incs) < len(fine_incs) else 'other'}|method={sc['process']['method']}",
                {"level": lvl, "fine_jumps": fine_incs[:10], "coupling_decisions": coupled_incs[:10]})
            break
    # ---- a (paths): the coarse jump component of a simulated pair is piecewise constant between the fine jumps - it may
    # move only at a time at which the fine component moves (also on the points a maximum time step inserts)
    for (lvl, ptimes, pj, sim) in wd.c03.get("pairs", []):
        if pj.ndim != 2 or pj.shape[0] != 2 or pj.shape[1] < 2:
            continue
        if "FixedTimes" in sim or sim == "NoneType":
            continue  # observed on the product dates only: several jumps (that may cancel in one component) per step
        wd.probes["c03.pair_path_checked"] += 1
        df_, dc_ = np.diff(pj[0]), np.diff(pj[1])
        if np.any(df_ == 0.0):
            wd.probes["c03.pair_path_with_jump_free_steps"] += 1
        # ... and where the fine component jumps to a grid state, the coarse one takes the same value (state on the
        # coarse grid) or one of the two states next to it (state between two coarse states)
        if lvl in levels:
            axis_, origin_ = levels[lvl]
            for i_ in np.flatnonzero(df_ != 0.0):
                pos_ = int(np.argmin(np.abs(axis_ - df_[i_])))
                if abs(axis_[pos_] - df_[i_]) > 1e-9 * (1.0 + abs(df_[i_])):
                    continue  # not a single jump to a grid state (several jumps between two recorded points)
                inc_ = pos_ - origin_
                tol_ = 1e-9 * (1.0 + abs(df_[i_]))
                if inc_ % 2 == 0:
                    ok_ = abs(dc_[i_] - axis_[pos_]) <= tol_
                else:
                    ok_ = (pos_ >= 1 and abs(dc_[i_] - axis_[pos_ - 1]) <= tol_) or (pos_ + 1 < axis_.size and abs(dc_[i_] - axis_[pos_ + 1]) <= tol_)
                wd.probes["c03.pair_path_jump_checked"] += 1
                if not ok_:
                    add(f"C03.a|a coarse jump of a simulated pair is neither the fine jump (coarse-grid state) nor a state next to it|in-the-returned-path|method={sc['process']['method']}",
                        {"level": lvl, "fine_jump": float(df_[i_]), "coarse_jump": float(dc_[i_]), "increment": int(inc_)})
                    break
        bad = np.flatnonzero((df_ == 0.0) & (np.abs(dc_) > 1e-12 * (1.0 + np.max(np.abs(pj[1])))))
        if bad.size:
            i = int(bad[0])
            add(f"C03.a|the coarse component of a simulated pair moves at a time at which the fine component does not jump|method={sc['process']['method']}",
                {"level": lvl, "time": float(ptimes[i + 1]) if i + 1 < ptimes.size else None,
                 "coarse_before_after": [float(pj[1][i]), float(pj[1][i + 1])], "fine": float(pj[0][i])})
            break
    # ---- a: every coupled jump of every path ----------------------------------------------------------------
    for (lvl, incs, coarse_cum) in wd.c03["slices"]:
        if lvl not in levels or not incs:
            continue
        axis, origin = levels[lvl]
        prev = 0.0
        for inc, cum in zip(incs, coarse_cum):
            pos = origin + inc
            if pos < 0 or pos >= axis.size:
                continue
            cj = cum - prev
            prev = cum
            x = axis[pos]
            tol = 1e-12 * (1.0 + abs(cum))
            if inc % 2 == 0:
                wd.probes["c03.even_increment_seen"] += 1
                if abs(cj - x) > tol:
                    add(f"C03.a|a fine jump landing on a coarse-grid state is not copied unchanged|in-path|method={sc['process']['method']}",
                        {"level": lvl, "increment": inc, "coarse_jump": cj, "fine_jump": float(x)})
            else:
                left, right = axis[pos - 1], axis[pos + 1]
                if abs(cj - left) > tol and abs(cj - right) > tol:
                    add(f"C03.a|an odd fine jump is not moved to a coarse state adjacent to it|in-path|method={sc['process']['method']}",
                        {"level": lvl, "increment": inc, "coarse_jump": cj, "neighbours": [float(left), float(right)]})
    key = hashlib.sha256(repr((sc["process"], sc["variant"], sorted(levels), sorted(probed))).encode()).hexdigest()[:16]
    return {"violations": V, "errors": errors, "info": {"levels": sorted(levels), "probed": len(probed),
                                                        "slices": len(wd.c03["slices"])},
            "key": key, "nontrivial": bool(levels) and bool(probed)}


def summarise(sc, o):
    return {"scenario": sc, "violations": [v["sig"] for v in o["violations"]], "errors": o.get("errors", [])[:2],
            "info": o.get("info")}


# =====================================================================================================
# several dimensions: the Levy-copula coupling (CouplingProcessLevyCopula) - same oracles, n-d geometry
# =====================================================================================================
_installed_nd = False


def _install_nd():
    global _installed_nd
    if _installed_nd:
        return
    import rpylib.process.coupling.couplinglevycopula as clc

    o_next = clc.CouplingProcessLevyCopula.next_level

    def next_level(self, mc_paths, path_managers, product, max_step_epsilon=None):
        st = _st()
        if st is None or "hook_nd" not in st:
            return o_next(self, mc_paths, path_managers, product, max_step_epsilon)
        ts = np.array([0.0, 1.0, 2.5])
        before = {"level": self.level, "axes": [np.array(a, dtype=float, copy=True) for a in self.grid.axes],
                  "origin": tuple(int(c) for c in self.grid.origin_coordinate), "h": float(self.grid.h),
                  "diffusion_matrix": np.array(self.fine_process._path_simulation.diffusion_matrix, dtype=float, copy=True),
                  "det_fine": np.array(self.fine_process.deterministic_path(ts), dtype=float), "mass": self.fine_process.model.mass}
        r = o_next(self, mc_paths, path_managers, product, max_step_epsilon)
        st["hook_nd"](before, self, path_managers)
        return r

    clc.CouplingProcessLevyCopula.next_level = next_level
    o_slice = clc.CouplingLevyCopulaSimulation._coupling_states_for_a_slice

    def slice_(self, slice_fine_states):
        out = o_slice(self, slice_fine_states)
        st = _st()
        if st is not None and "slices_nd" in st:
            st["slices_nd"].append((self.coupling_process.level, [tuple(int(i) for i in s) for s in slice_fine_states],
                                    [np.array(x, dtype=float, copy=True) for x in out]))
        return out

    clc.CouplingLevyCopulaSimulation._coupling_states_for_a_slice = slice_
    _installed_nd = True


def _cell(axes, pos):
    lo, hi = [], []
    for k, c in enumerate(pos):
        ax = axes[k]
        lo.append(ax[0] if c == 0 else 0.5 * (ax[c - 1] + ax[c]))
        hi.append(ax[-1] if c == len(ax) - 1 else 0.5 * (ax[c] + ax[c + 1]))
    return tuple(lo), tuple(hi)


def execute_nd(wd, sc):
    import itertools

    from rpylib.montecarlo.configuration import ConfigurationMultiLevel
    from rpylib.montecarlo.multilevel.engine import Engine
    from rpylib.process.coupling.couplinglevycopula import CouplingProcessLevyCopula, CouplingLevyCopulaSimulation
    from rpylib.product.payoff import PayoffOnTheFly
    from rpylib.product.product import Product
    from rpylib.product.underlying import Spot
    from . import c02nd

    _install()
    _install_nd()
    V, errors = [], []
    levels = {}
    probed = set()
    script_u = {"u": None}

    def add(sig, detail):
        if not any(v["sig"] == sig for v in V):
            V.append({"sig": sig, "oracle": sig.split("|")[0], "detail": detail})

    def script(wd_, ctx, fname, cons, a, k, val):
        if script_u["u"] is not None and fname == "np.uniform" and "Uniform.sample" in cons:
            wd_.faults["rng.boundary_targeted_uniform"] += 1
            return np.full(np.asarray(val).shape, script_u["u"])
        return val

    wd.script = script
    cls = f"copula-coupling|dim={len(sc['process']['margins'])}"

    def hook_nd(before, cp, path_managers):
        lvl = cp.level
        wd.probes["c03.nd_level_transition"] += 1
        axes = [np.array(a, dtype=float) for a in cp.grid.axes]
        origin = tuple(int(c) for c in cp.grid.origin_coordinate)
        levels[lvl] = (axes, origin)
        levels.setdefault(before["level"], (before["axes"], before["origin"]))
        dim = len(axes)
        nested = all(ax.size == 2 * old.size - 1 and np.array_equal(ax[::2], old) for ax, old in zip(axes, before["axes"])) \
            and origin == tuple(2 * o for o in before["origin"])
        if not nested:
            add("C03.pre|refined grid does not hold the previous grid at even indices (precondition of the coupling)|" + cls,
                {"level": lvl})
            return
        # ---- c -----------------------------------------------------------------------------------------
        if cp._diffusion_matrix_2h is None or not np.allclose(cp._diffusion_matrix_2h, before["diffusion_matrix"], rtol=0, atol=1e-14):
            add("C03.c|coarse diffusion matrix is not the fine matrix of the previous level|" + cls, {"level": lvl})
        if path_managers is not None:
            ts = np.array([0.0, 1.0, 2.5])
            pair = np.array(path_managers[-1].deterministic_path(ts), dtype=float)
            if not np.allclose(pair[1], before["det_fine"], rtol=1e-12, atol=1e-12):
                add("C03.c|coarse deterministic path is not the fine deterministic path of the previous level|" + cls, {"level": lvl})
            frozen_nd.append((lvl, path_managers, len(path_managers) - 1, pair.copy()))
        # ---- b: the implementation's projection probabilities, then the telescoping sum -------------------
        mass = cp.model.mass  # the mass function the coupling itself uses
        mass_f = cp.fine_process.model.mass
        mass_c = before["mass"]
        sizes = [len(a) for a in axes]
        ctx = wd.current
        saved = ctx.nprs.get_state(legacy=True)
        try:
            probe = copy.deepcopy(cp)
            sim = CouplingLevyCopulaSimulation(coupling_process=probe)
            g = sub_rng(wd.seed, f"c03nd.probe.{lvl}")
            agg = {}
            odd_states = []
            for pos in itertools.product(*[range(n) for n in sizes]):
                if pos == origin:
                    continue
                lo, hi = _cell(axes, pos)
                qf = float(mass_f(a=lo, b=hi))
                inc = tuple(c - o for c, o in zip(pos, origin))
                O = [k for k in range(dim) if inc[k] % 2 != 0]
                if not O:
                    y = tuple(c // 2 for c in pos)
                    agg[y] = agg.get(y, 0.0) + qf
                    continue
                if any(pos[k] == 0 or pos[k] == sizes[k] - 1 for k in O):
                    continue  # cannot happen on a nested grid (end points are even)
                odd_states.append((pos, inc, O))
                pv = tuple(axes[k][pos[k]] for k in O)
                ml_ = tuple(0.5 * (axes[k][pos[k] - 1] + axes[k][pos[k]]) for k in O)
                mr_ = tuple(0.5 * (axes[k][pos[k]] + axes[k][pos[k] + 1]) for k in O)
                total = float(mass(ml_, mr_, list(O)))
                for corner in itertools.product([-1, 1], repeat=len(O)):
                    cv = tuple(axes[k][pos[k] + s] for k, s in zip(O, corner))
                    mid = tuple(0.5 * (a_ + b_) for a_, b_ in zip(cv, pv))
                    lo_c = tuple(min(a_, b_) for a_, b_ in zip(pv, mid))
                    hi_c = tuple(max(a_, b_) for a_, b_ in zip(pv, mid))
                    pc = float(mass(lo_c, hi_c, list(O))) / total if total > 0 else 0.0
                    ypos = list(pos)
                    for k, s in zip(O, corner):
                        ypos[k] = pos[k] + s
                    y = tuple(c // 2 for c in ypos)
                    agg[y] = agg.get(y, 0.0) + qf * pc
            # boundary-targeted uniforms on a sample of odd states: the implementation uses exactly these thresholds
            for (pos, inc, O) in g.sample(odd_states, min(len(odd_states), 6)):
                pv = tuple(axes[k][pos[k]] for k in O)
                ml_ = tuple(0.5 * (axes[k][pos[k] - 1] + axes[k][pos[k]]) for k in O)
                mr_ = tuple(0.5 * (axes[k][pos[k]] + axes[k][pos[k] + 1]) for k in O)
                total = float(mass(ml_, mr_, list(O)))
                if not total > 0:
                    continue
                cum = 0.0
                corners = list(itertools.product([-1, 1], repeat=len(O)))
                wd.probes["c03.nd_odd_increment_probed"] += 1
                probed.add((lvl, inc))
                for ci_, corner in enumerate(corners[:-1]):
                    cv = tuple(axes[k][pos[k] + s] for k, s in zip(O, corner))
                    mid = tuple(0.5 * (a_ + b_) for a_, b_ in zip(cv, pv))
                    lo_c = tuple(min(a_, b_) for a_, b_ in zip(pv, mid))
                    hi_c = tuple(max(a_, b_) for a_, b_ in zip(pv, mid))
                    cum += float(mass(lo_c, hi_c, list(O))) / total
                    for u, which in ((cum - DELTA, ci_), (cum + DELTA, ci_ + 1)):
                        if not (0.0 < u < 1.0):
                            continue
                        script_u["u"] = u
                        try:
                            out = sim._coupling_states_for_a_slice([inc])
                        finally:
                            script_u["u"] = None
                        got = np.asarray(out[0], dtype=float)
                        exp_pos = list(pos)
                        for k, s in zip(O, corners[which]):
                            exp_pos[k] = pos[k] + s
                        exp = np.array([axes[k][exp_pos[k]] for k in range(dim)])
                        if not np.allclose(got, exp, rtol=0, atol=1e-12):
                            add("C03.b|projection probabilities of an odd fine state are not the corner masses in the corner order|" + cls,
                                {"level": lvl, "increment": list(inc), "u": u, "got": got.tolist(), "expected": exp.tolist()})
            # telescoping against the previous level's chain
            worst, werr, wy = 0.0, 0.0, None
            old_axes, old_origin = before["axes"], before["origin"]
            scale = 0.0
            for y in itertools.product(*[range(len(a)) for a in old_axes]):
                if y == old_origin:
                    continue
                lo, hi = _cell(old_axes, y)
                qc = float(mass_c(a=lo, b=hi))
                scale = max(scale, abs(qc))
                e = abs(agg.get(y, 0.0) - qc)
                if e > werr:
                    werr, wy, worst = e, y, qc
            wd.probes["c03.nd_telescoping_checked"] += 1
            if werr > 1e-7 * (1.0 + scale):
                indep = sc["process"]["copula"]["kind"] == "independent"
                add(f"C03.b|fine rates pushed through the coupling do not give the coarse chain's rates|{'independent-copula' if indep else 'dependent-copula'}|" + cls,
                    {"level": lvl, "coarse_state": list(wy), "pushed": agg.get(wy, 0.0), "coarse_rate": worst,
                     "relative_error": werr / (abs(worst) + 1e-300)})
        except HarnessError:
            raise
        except Exception as e:
            import traceback

            errors.append({"kind": type(e).__name__, "msg": f"probe at level {lvl}: " + str(e)[:140],
                           "where": traceback.extract_tb(e.__traceback__)[-1].name})
        finally:
            ctx.nprs.set_state(saved)
            ctx.fp_np = __import__("simkit.world", fromlist=["fp_np"]).fp_np(ctx.nprs)

    frozen_nd = []
    wd.c03 = {"transitions": [], "slices": [], "hook": lambda *a: None, "hook_nd": hook_nd, "slices_nd": []}
    try:
        spec = sc["process"]
        chain = c02nd.build_copula_process(spec)  # builds model + grid the same way; the coupling gets its own grid below
        from rpylib.grid.spatial import CTMCUniformGrid
        from rpylib.distribution.sampling import SamplingMethod

        grid = CTMCUniformGrid.create_from_fixed_nb_of_points(h=spec["grid"]["h"], nb_of_points=spec["grid"]["n"],
                                                              dimension=len(spec["margins"]))
        # the chain's (truncated, tilde) model is a copy: take the pristine model from a fresh build
        lcm = _pristine_copula_model(spec)
        cp = CouplingProcessLevyCopula(lcm, grid, SamplingMethod[c02nd.ND_METHODS[spec["method"]]])
        product = Product(payoff_underlying=Spot(), payoff=PayoffOnTheFly(lambda u: float(np.sum(u))),
                          maturity=sc["product"]["maturity"])
        cfg = ConfigurationMultiLevel(initial_level=0, maximum_level=sc["max_level"], initial_mc_paths=sc["n"],
                                      nb_of_processes=1, seed=sc["seed"])
        Engine(cfg, cp).price_with_constant_mc_paths_and_level(product)
        wd.probes["c03.nd_run"] += 1
    except HarnessError:
        wd.script = None
        raise
    except Exception as e:
        import traceback

        errors.append({"kind": type(e).__name__, "msg": str(e)[:140], "where": traceback.extract_tb(e.__traceback__)[-1].name})
        wd.probes["c03.run_raised"] += 1
    wd.script = None
    ts_ = np.array([0.0, 1.0, 2.5])
    for (lvl, pms, idx, pair0) in frozen_nd:
        try:
            pair = np.array(pms[idx].deterministic_path(ts_), dtype=float)
        except Exception:
            continue
        wd.probes["c03.frozen_drift_rechecked"] += 1
        if not np.allclose(pair, pair0, rtol=1e-12, atol=1e-12):
            add("C03.c|deterministic paths of a level changed after later levels were built|" + cls,
                {"level": lvl, "now": pair.tolist(), "at_creation": pair0.tolist()})
    # ---- a: coupled jumps --------------------------------------------------------------------------------
    for (lvl, incs, cums) in wd.c03["slices_nd"]:
        if lvl not in levels:
            continue
        axes, origin = levels[lvl]
        prev = np.zeros(len(axes))
        for inc, cum in zip(incs, cums):
            cj = np.asarray(cum, dtype=float) - prev
            prev = np.asarray(cum, dtype=float)
            pos = tuple(o + i for o, i in zip(origin, inc))
            for k in range(len(axes)):
                x = axes[k][pos[k]]
                if inc[k] % 2 == 0:
                    if abs(cj[k] - x) > 1e-12 * (1 + abs(x)):
                        add("C03.a|an even coordinate of a fine jump is not copied unchanged|in-path|" + cls,
                            {"level": lvl, "increment": list(inc), "coordinate": k, "coarse": float(cj[k]), "fine": float(x)})
                else:
                    left, right = axes[k][pos[k] - 1], axes[k][pos[k] + 1]
                    wd.probes["c03.nd_odd_coordinate_seen"] += 1
                    if abs(cj[k] - left) > 1e-12 and abs(cj[k] - right) > 1e-12:
                        add("C03.a|an odd coordinate of a fine jump is not moved to an adjacent coarse state|in-path|" + cls,
                            {"level": lvl, "increment": list(inc), "coordinate": k, "coarse": float(cj[k])})
    key = hashlib.sha256(repr((sc["process"], sc["max_level"], sorted(levels), sorted(probed))).encode()).hexdigest()[:16]
    return {"violations": V, "errors": errors, "info": {"levels": sorted(levels), "probed": len(probed)}, "key": key,
            "nontrivial": bool(levels) and bool(probed)}


def _pristine_copula_model(spec):
    from rpylib.model.levymodel.levymodel import ModelType
    from rpylib.model.utils import create_exponential_of_levy_model, create_levy_copula_model, create_clayton_copula, \
        create_independent_copula
    from . import c02nd

    models = []
    for name in spec["margins"]:
        mt, kw = c02nd.MARGINS[name]
        models.append(create_exponential_of_levy_model(ModelType[mt])(**kw))
    cop = spec["copula"]
    copula = create_independent_copula() if cop["kind"] == "independent" else create_clayton_copula(theta=cop["theta"], eta=cop["eta"])
    return create_levy_copula_model(models, copula)
