"""C16 - the SDE scheme is the Euler scheme of its driver (scheme clause; the discount clause is not decided here).

Workload: ``MarkovChainSDE`` through the real standard engine and ``CouplingSDE`` through the real multilevel engine
(fixed-level run, levels reached through the engine's own deepcopy / next_level chain), 1-d drivers (HEM, VG, CGMY with
finite and infinite variation: maximum-step index 0 and > 0), coefficient functions Constant, DiagX and the time-dependent LiborSDEFunction (2-3 rates, fixing dates inside the horizon), several x0.
The driver path every SDE path consumed is recorded where it is handed over (the chain's / the coupled chain's
simulate call); the deterministic drifts of the chains are recorded level by level as the engine builds them.
Oracle: Euler recursion on the recorded driver path, step by step, for the single process and for each component of
the coupled pair (the coarse component with the drift of the previous level's chain), plus the closed forms
x0 + c*Y_T (constant coefficient) and x0 * prod(1 + dY_i) (a(x) = x).
"""
import hashlib

import numpy as np

from simkit import rngseam
from simkit.world import sub_rng, HarnessError

ID = "C16"
RULE = ("one world per seed: driver (hem / vg / cgmy y=0.2 / cgmy y=1.2), coefficient (Constant c | DiagX | LiborSDEFunction with 2-3 rates and fixing dates inside the horizon | the Levy Libor model with its state-dependent SDE drift), x0, grid step, "
        "maturity, engine (standard with MarkovChainSDE | multilevel fixed-level with CouplingSDE, max level 1-3), 3-12 "
        "paths per level, variates from the seeded per-context generators. non-trivial = SDE path with >=3 time points; "
        "distinct = hash(driver, coefficient, engine, levels, step-count pattern)")
REAL = ["rpylib.process.markovchain.markovchainsde.MarkovChainSDE", "rpylib.process.coupling.couplingsde.CouplingSDE",
        "rpylib.process.coupling.couplingmarkovchain", "rpylib.process.markovchain.markovchain",
        "rpylib.model.levydrivensde.levydrivensde", "standard and multilevel engines, path managers"]
STUB = ["clock/pid/entropy/RNG seams (record mode)", "gmpy2.qdiv, tqdm"]
ASSUMPTIONS = ["the driver paths are taken as given (their structure is C15, their coupling C03)",
               "the SDE drift function of the Levy Libor model is taken as given (the model's own sde_drift, evaluated by the "
               "reference at each component's own state and left end point); its formula is not decided here",
               "discount-factor clause of C16 (df(0)=1, positive, continuous, non-increasing) is a pure function of t: not decided",
               "copula drivers: 2-d Levy-copula chains on small fixed grids (20% of the worlds), coefficients Constant (m x 2), "
               "diag(x), sigma(t)*x; 3-d drivers and the Libor drift with a copula driver are not covered"]
TIERS = {
    "quick": {"worlds": 4000, "wall": 500, "shrink_budget": 40,
              "required_probes": ["c16.single_path_checked", "c16.coupled_path_checked", "c16.diag_coefficient",
                                  "c16.maxstep_active", "c16.level_ge_2", "c16.fixing_inside_the_horizon",
                                  "c16.state_dependent_sde_drift", "c16.nd_single_path_checked",
                                  "c16.nd_coupled_path_checked", "c16.euler_step_starts_on_a_fixing_date"]},
    "thorough": {"worlds": 80000, "wall": 2900, "shrink_budget": 100,
                 "required_probes": ["c16.single_path_checked", "c16.coupled_path_checked", "c16.diag_coefficient",
                                     "c16.maxstep_active", "c16.level_ge_2"]},
}
DRIVERS = {"hem": ("HEM", {}), "vg": ("VG", {}), "cgmy02": ("CGMY", dict(c=0.7, g=15.0, m=20.0, y=0.2)),
           "cgmy12": ("CGMY", dict(c=0.019, g=2.0, m=4.0, y=1.2)), "hem_hi": ("HEM", dict(intensity=8.0))}
_installed = False


def _install():
    global _installed
    if _installed:
        return
    import rpylib.process.markovchain.markovchain as mc
    import rpylib.process.coupling.couplingmarkovchain as cmc
    import rpylib.process.coupling.couplingsde as csde
    import rpylib.process.markovchain.markovchainsde as msde

    def snap(path):
        return {"times": np.array(path.times(), dtype=float, copy=True),
                "diff": np.array(path.diffusion_path, dtype=float, copy=True),
                "jump": np.array(path.jump_path, dtype=float, copy=True)}

    o1 = mc.MarkovChainProcess.simulate_one_path

    def sim1(self):
        p = o1(self)
        wd = rngseam.ACTIVE
        if wd is not None and getattr(wd, "c16", None) is not None:
            wd.c16["driver"].append(("single", snap(p), float(np.ravel(self.process_drift())[0])))
        return p

    mc.MarkovChainProcess.simulate_one_path = sim1
    o2 = cmc.CouplingMarkovChain.simulate_one_path_with_coupling

    def sim2(self):
        p = o2(self)
        wd = rngseam.ACTIVE
        if wd is not None and getattr(wd, "c16", None) is not None:
            wd.c16["driver"].append(("coupled", snap(p), float(np.ravel(self.fine_process.process_drift())[0]), self.level))
        return p

    cmc.CouplingMarkovChain.simulate_one_path_with_coupling = sim2
    o3 = csde.CouplingSDE.next_level

    def nl(self, *a, **k):
        r = o3(self, *a, **k)
        wd = rngseam.ACTIVE
        if wd is not None and getattr(wd, "c16", None) is not None:
            wd.c16["drifts"][self.level] = float(np.ravel(self.driver_coupling_process.fine_process.process_drift())[0])
        return r

    csde.CouplingSDE.next_level = nl
    o4 = msde.MarkovChainSDE.initialisation

    def init(self, *a, **k):
        r = o4(self, *a, **k)
        wd = rngseam.ACTIVE
        if wd is not None and getattr(wd, "c16", None) is not None:
            wd.c16["drifts"].setdefault(0, float(np.ravel(self.markov_chain.process_drift())[0]))
            wd.c16.setdefault("sde_drift", self.sde_drift)
        return r

    msde.MarkovChainSDE.initialisation = init
    _installed = True


def generate(seed, tier="quick"):
    r = sub_rng(seed, "c16.scenario")
    if r.random() < 0.2:
        return generate_nd(r, seed)
    sc = {"world_seed": seed, "driver": r.choice(list(DRIVERS)), "coef": r.choice(["const", "diag", "diag", "libor", "libor", "libormodel", "libormodel"]),
            "m": r.choice([2, 3]), "tenor_fracs": sorted(r.sample([0.15, 0.3, 0.45, 0.6, 0.75, 0.9, 1.2, 1.5], 4)),
            "c": r.choice([1.0, 0.5, -2.0]), "x0": r.choice([1.0, 0.03, 100.0]), "h": r.choice([0.1, 0.05, 0.2]),
            "maturity": r.choice([0.25, 1.0]), "engine": r.choice(["standard", "mlmc", "mlmc"]),
            "max_level": r.choice([1, 2, 3]), "n": r.choice([3, 6, 12]), "seed": r.choice([None, 11]),
            # the multilevel run through the (simulated) worker pool: every path is simulated by a pickled copy of the level's
            # process and shipped back
            "nproc": r.choice([1, 1, 2, 3])}
    rw = sub_rng(seed, "c16.whole_tenors")
    if sc["coef"] in ("libor", "libormodel") and rw.random() < 0.15:
        # fixing dates ON points of the simulation's own time grid (a finite-activity driver is simulated with a maximum
        # step of one year; whole-year tenors inside a 2.5-year horizon): an Euler step then STARTS on a fixing date, where
        # the coefficient already has the fixed rate's row at zero (own stream: the other draws are unchanged)
        sc.update(whole_tenors=True, driver="hem", maturity=2.5, m=2)
    return sc


def shrink_candidates(sc):
    import copy

    def mod(**kw):
        c = copy.deepcopy(sc)
        c.update(kw)
        return c

    if sc.get("nd"):
        if sc["n"] > 3:
            yield mod(n=3)
        if sc["max_level"] > 1:
            yield mod(max_level=1)
        return
    if sc["n"] > 3:
        yield mod(n=3)
    if sc["engine"] == "mlmc" and sc["max_level"] > 1:
        yield mod(max_level=sc["max_level"] - 1)
    if sc["driver"] != "hem":
        yield mod(driver="hem")
    if sc["x0"] != 1.0:
        yield mod(x0=1.0)
    if sc["c"] != 1.0:
        yield mod(c=1.0)
    if sc["h"] != 0.2:
        yield mod(h=0.2)


SIGMA = np.array([0.5, 0.8, 1.0])
X0_LIBOR = np.array([0.02, 0.025, 0.03])


def _check_reads(samples, add):
    for s_ in samples:
        rd = s_.get("reads")
        if rd is None:
            continue
        if not rd["same"]:
            add("C16.euler|reading the solution of a returned path twice gives different values (value() changes the path)", {"serial": s_["serial"]})
            break
        if not rd["adds_up"]:
            add("C16.euler|drift, diffusion and jump parts of a returned path do not add up to its solution", {"serial": s_["serial"]})
            break
        sh = s_.get("shipped") or {}
        bad = [k_ for k_, ok_ in sh.items() if ok_ is False]
        if bad or "error" in sh:
            add(f"C16.euler|the solution of a path shipped through the {bad[0] if bad else 'pickler'} (what a worker pool / the engines' copies do) is not the solution that was simulated",
                {"serial": s_["serial"], "shipped": sh})
            break


def _euler(x0, coef, c, mu, times, dW, dL, tenors=None, sde_drift=None):
    """independent Euler recursion: X_{i+1} = X_i + a(t_i, X_i) * (mu dt_i + dW_i + dL_i), coefficient taken at the LEFT
    end point; scalar state for const / diag, vector state (one row per time) for the Libor coefficient"""
    vec = coef in ("libor", "libormodel")
    x = np.array(x0, dtype=float) if vec else x0
    xs = [np.array(x, copy=True) if vec else x]
    for i in range(len(times) - 1):
        dt = times[i + 1] - times[i]
        if coef == "const":
            a = c
        elif coef == "diag":
            a = x
        else:
            sig = SIGMA[:len(x)].copy()
            sig[np.asarray(tenors[:-1]) <= times[i]] = 0.0  # a rate stops moving once it has fixed
            if rngseam.ACTIVE is not None and np.any(np.asarray(tenors[:-1]) == times[i]):
                rngseam.ACTIVE.probes["c16.euler_step_starts_on_a_fixing_date"] += 1
            a = sig * x
        dr = 0.0
        if sde_drift is not None:
            # the model's own SDE drift, evaluated at THIS component's own state at the left end point
            dr = np.asarray(sde_drift(times[i], np.array(x, dtype=float).reshape(-1, 1)), dtype=float).reshape(-1)
        x = x + (dr + a * mu) * dt + a * (dW[i] + dL[i])
        xs.append(np.array(x, copy=True) if vec else x)
    return np.array(xs).T if vec else np.array(xs)


def execute(wd, sc):
    from rpylib.model.levymodel.levymodel import ModelType
    from rpylib.model.utils import create_levy_model
    from rpylib.model.levydrivensde.levydrivensde import LevyDrivenSDEModel, Constant, DiagX
    from rpylib.grid.spatial import CTMCUniformGrid
    from rpylib.distribution.sampling import SamplingMethod
    from rpylib.process.markovchain.markovchainsde import MarkovChainSDE
    from rpylib.process.coupling.couplingsde import CouplingSDE
    from rpylib.product.payoff import PayoffOnTheFly
    from rpylib.product.product import Product
    from rpylib.product.underlying import Spot
    from rpylib.montecarlo.configuration import ConfigurationMultiLevel, ConfigurationStandard
    from rpylib.montecarlo.multilevel.engine import Engine as ML
    from rpylib.montecarlo.standard.engine import Engine as STD

    if sc.get("nd"):
        return execute_nd(wd, sc)
    _install()
    V, errors = [], []
    wd.c16 = {"driver": [], "drifts": {}}
    wd.check_path_reads = True
    mt, kw = DRIVERS[sc["driver"]]
    x0, coef, c, T = sc["x0"], sc["coef"], sc["c"], sc["maturity"]
    cls = "a=" + {"const": "constant", "diag": "x", "libor": "sigma(t)*x", "libormodel": "sigma(t)*x+libor-drift"}[coef]
    vec = coef in ("libor", "libormodel")

    def add(sig, detail):
        if not any(v["sig"] == sig for v in V):
            V.append({"sig": sig, "oracle": sig.split("|")[0], "detail": detail})

    try:
        driver = create_levy_model(ModelType[mt])(**kw)
        tenors = None
        if coef in ("libor", "libormodel"):
            from rpylib.model.levydrivensde.levydrivensde import LiborSDEFunction

            m = sc["m"]
            tenors = np.array(sc["tenor_fracs"][:m + 1]) * T
            if sc.get("whole_tenors"):
                tenors = np.array([1.0, 2.0, 3.0])
            if coef == "libormodel":
                tenors[-1] = max(tenors[-1], 1.25 * T)  # the model discounts up to its last tenor only
            x0 = X0_LIBOR[:m].copy()
            a = LiborSDEFunction(sigma=SIGMA[:m].reshape(m, 1).copy(), tenors=tenors)
            wd.probes["c16.time_dependent_coefficient"] += 1
            if np.any(tenors[:-1] < T):
                wd.probes["c16.fixing_inside_the_horizon"] += 1
        else:
            a = Constant(1, 1, c) if coef == "const" else DiagX(1)
        if coef == "libormodel":
            # state-dependent SDE drift (terminal-measure drift of the Levy Libor model)
            from rpylib.model.levydrivensde.levylibormodel import LevyLiborModel

            model = LevyLiborModel(libor_rates=x0.copy(), tenors=[float(t_) for t_ in tenors],
                                   sigma=SIGMA[:m].reshape(m, 1).copy(), driver=driver)
            wd.probes["c16.state_dependent_sde_drift"] += 1
        else:
            model = LevyDrivenSDEModel(driver=driver, x0=x0, a=a)
        grid = CTMCUniformGrid(h=sc["h"], model=model.driver)
        product = Product(payoff_underlying=Spot(), payoff=PayoffOnTheFly(lambda u: float(np.sum(u))), maturity=T)
        method = SamplingMethod.BINARYSEARCHTREEADAPTED1D
        if sc["engine"] == "standard":
            proc = MarkovChainSDE(model, method, grid)
            STD(ConfigurationStandard(mc_paths=sc["n"], nb_of_processes=1, seed=sc["seed"]), proc).price(product)
            eps0 = proc.epsilon
        else:
            cp = CouplingSDE(model=model, grid=grid, method=method)
            eps0 = cp.epsilon
            nproc = sc.get("nproc", 1)
            if nproc != 1:
                wd.probes["c16.multilevel_run_through_the_pool"] += 1
            ML(ConfigurationMultiLevel(initial_level=0, maximum_level=sc["max_level"], initial_mc_paths=sc["n"],
                                       nb_of_processes=nproc, seed=sc["seed"]), cp).price_with_constant_mc_paths_and_level(product)
    except HarnessError:
        raise
    except Exception as e:
        import traceback

        errors.append({"kind": type(e).__name__, "msg": str(e)[:160], "where": traceback.extract_tb(e.__traceback__)[-1].name})
        wd.probes["c16.run_raised"] += 1
    if eps0 < T if "eps0" in dir() else False:
        wd.probes["c16.maxstep_active"] += 1
    if coef == "diag":
        wd.probes["c16.diag_coefficient"] += 1
    samples = [s for s in wd.samples if "drift" in s]
    _check_reads(samples, add)
    drivers = wd.c16["driver"]
    # every SDE path consumed exactly one driver path, in order (single process)
    pattern = []
    nontrivial = False
    if len(samples) != len(drivers):
        # the chain's simulate_one_path is also what a level-0 CouplingSDE calls: counts must still agree
        errors.append({"kind": "reference", "msg": f"{len(samples)} SDE paths vs {len(drivers)} driver paths"})
    else:
        for s, d in zip(samples, drivers):
            times = s["times"]
            kind = d[0]
            dp = d[1]
            if times.shape != dp["times"].shape or np.any(times != dp["times"]):
                add(f"C16.times|SDE path is not on its driver's own time grid|{kind}|{cls}",
                    {"sde_times": times.tolist()[:8], "driver_times": dp["times"].tolist()[:8]})
                continue
            pattern.append(min(int(times.size), 6))
            if times.size >= 3:
                nontrivial = True
            if kind == "single":
                mu = d[2]
                dW, dL = np.diff(dp["diff"].reshape(-1)), np.diff(dp["jump"].reshape(-1))
                sdd = wd.c16.get("sde_drift") if coef == "libormodel" else None
                ref = _euler(x0, coef, c, mu, times, dW, dL, tenors, sdd)
                tot1 = s["drift"] + s["diff"] + s["jump"]
                got = (np.asarray(x0).reshape(-1, 1) + tot1) if vec else x0 + tot1.reshape(-1)
                wd.probes["c16.single_path_checked"] += 1
                scale = 1.0 + np.max(np.abs(ref))
                if got.shape != ref.shape or not np.allclose(got, ref, rtol=1e-10, atol=1e-12 * scale):
                    add(f"C16.euler|single-process path is not the Euler scheme of its driver path|{cls}",
                        {"got": np.ravel(got).tolist()[:6], "expected": np.ravel(ref).tolist()[:6], "mu": mu})
                # closed forms
                Y = mu * times + dp["diff"].reshape(-1) + dp["jump"].reshape(-1)
                cf = None if vec else (x0 + c * Y[-1] if coef == "const" else x0 * np.prod(1.0 + np.diff(Y)))
                if cf is not None and not np.isclose(got[-1], cf, rtol=1e-9, atol=1e-11 * scale):
                    add(f"C16.closed|terminal value differs from the closed form of the scheme|single|{cls}",
                        {"got": float(got[-1]), "closed_form": float(cf)})
            else:
                mu_f, level = d[2], d[3]
                if level >= 2:
                    wd.probes["c16.level_ge_2"] += 1
                mu_c = wd.c16["drifts"].get(level - 1)
                wd.probes["c16.coupled_path_checked"] += 1
                tot = s["drift"] + s["diff"] + s["jump"]  # shape (2, 1, n)
                for ci, (name, mu) in enumerate((("fine", mu_f), ("coarse", mu_c))):
                    if mu is None:
                        wd.probes["c16.coarse_drift_unknown"] += 1
                        continue
                    dW, dL = np.diff(dp["diff"][ci]), np.diff(dp["jump"][ci])
                    sdd = wd.c16.get("sde_drift") if coef == "libormodel" else None
                    ref = _euler(x0, coef, c, mu, times, dW, dL, tenors, sdd)
                    got = (np.asarray(x0).reshape(-1, 1) + np.asarray(tot[ci])) if vec else x0 + np.asarray(tot[ci]).reshape(-1)
                    scale = 1.0 + np.max(np.abs(ref))
                    if got.shape != ref.shape or not np.allclose(got, ref, rtol=1e-10, atol=1e-12 * scale):
                        mech = "other"
                        if name == "coarse":
                            alt = _euler(x0, coef, c, mu_f, times, dW, dL, tenors, sdd)
                            if got.shape == alt.shape and np.allclose(got, alt, rtol=1e-10, atol=1e-12 * scale):
                                mech = "coarse-component-uses-the-fine-level-drift"
                        add(f"C16.euler|{name} component of the coupled pair is not the Euler scheme of its driver path|{mech}|{cls}",
                            {"level": level, "got": np.ravel(got).tolist()[:6], "expected": np.ravel(ref).tolist()[:6], "mu": mu})
                    Y = mu * times + dp["diff"][ci] + dp["jump"][ci]
                    cf = None if vec else (x0 + c * Y[-1] if coef == "const" else x0 * np.prod(1.0 + np.diff(Y)))
                    if cf is not None and not np.isclose(got[-1], cf, rtol=1e-9, atol=1e-11 * scale):
                        add(f"C16.closed|terminal value differs from the closed form of the scheme|{name}|{cls}",
                            {"level": level, "got": float(got[-1]), "closed_form": float(cf)})
    key = hashlib.sha256(repr((sc["driver"], coef, sc["engine"], sc["max_level"], tuple(pattern))).encode()).hexdigest()[:16]
    return {"violations": V, "errors": errors, "info": {"paths": len(samples)}, "key": key, "nontrivial": nontrivial}


def summarise(sc, o):
    return {"scenario": sc, "violations": [v["sig"] for v in o["violations"]], "errors": o.get("errors", [])[:2],
            "info": o.get("info")}


# =====================================================================================================
# copula (2-d) drivers: same oracle with a matrix coefficient a(t, x) in R^(m x d)
# =====================================================================================================
_installed_nd = False


def _install_nd():
    global _installed_nd
    if _installed_nd:
        return
    import rpylib.process.markovchain.markovchainlevycopula as mclc
    import rpylib.process.coupling.couplinglevycopula as clc
    import rpylib.process.coupling.couplingsde as csde

    def snap(path):
        return {"times": np.array(path.times(), dtype=float, copy=True),
                "diff": np.array(path.diffusion_path, dtype=float, copy=True),
                "jump": np.array(path.jump_path, dtype=float, copy=True)}

    o1 = mclc.MarkovChainLevyCopula.simulate_one_path

    def sim1(self):
        p = o1(self)
        wd = rngseam.ACTIVE
        if wd is not None and getattr(wd, "c16", None) is not None:
            wd.c16["driver"].append(("single", snap(p), np.array(self.process_drift(), dtype=float).reshape(-1)))
        return p

    mclc.MarkovChainLevyCopula.simulate_one_path = sim1
    o2 = clc.CouplingProcessLevyCopula.simulate_one_path_with_coupling

    def sim2(self):
        p = o2(self)
        wd = rngseam.ACTIVE
        if wd is not None and getattr(wd, "c16", None) is not None:
            wd.c16["driver"].append(("coupled", snap(p), np.array(self.fine_process.process_drift(), dtype=float).reshape(-1), self.level))
        return p

    clc.CouplingProcessLevyCopula.simulate_one_path_with_coupling = sim2
    _installed_nd = True


def _a_nd(coef, c, t, x, sigma, tenors):
    m = len(x)
    if coef == "const":
        return np.full((m, 2), c)
    if coef == "diag":
        return np.diag(x)
    sig = sigma.copy()
    sig[np.asarray(tenors[:-1]) <= t, :] = 0.0
    return sig * x.reshape(-1, 1)


def _euler_nd(x0, coef, c, mu, times, dW, dL, sigma, tenors, sde_drift=None):
    """X_{i+1} = X_i + (sde drift + a(t_i, X_i) mu) dt_i + a(t_i, X_i) (dW_i + dL_i); dW, dL: (d, n-1); returns (m, n)"""
    x = np.array(x0, dtype=float)
    xs = [x.copy()]
    for i in range(len(times) - 1):
        a = _a_nd("libor" if coef == "libormodel" else coef, c, times[i], x, sigma, tenors)
        if sde_drift is not None:
            # the model's own SDE drift, evaluated at THIS component's own state at the left end point
            x = x + np.asarray(sde_drift(times[i], x.reshape(-1, 1)), dtype=float).reshape(-1) * (times[i + 1] - times[i])
        x = x + a @ (mu * (times[i + 1] - times[i]) + dW[:, i] + dL[:, i])
        xs.append(x.copy())
    return np.array(xs).T


def generate_nd(r, seed):
    from . import c02nd

    proc = c02nd.generate_process(r)
    coef = r.choice(["const", "diag", "libor", "libor", "libormodel", "libormodel"])
    if coef == "libormodel" and (proc["copula"]["kind"] == "independent"
                                 or all(x in ("cgmy02", "vg") for x in proc["margins"][:2])):
        # the Libor model's drift needs the copula's mixed derivative (not offered by the independent copula), and its
        # cross integral of x*y over the truncation square is NaN (after ~30 s of dblquad) when both margins have
        # infinite activity - a numerical-integration matter outside the scheme clause (DESIGN section 14, observations)
        coef = "libor"
    m = 2 if coef == "diag" else (r.choice([2, 3]) if coef == "libormodel" else r.choice([1, 2, 3]))
    return {"world_seed": seed, "nd": True, "margins": proc["margins"][:2], "copula": proc["copula"], "method": proc["method"],
            "h": r.choice([0.1, 0.05]), "ngrid": r.choice([4, 6]), "coef": coef, "m": m, "c": r.choice([1.0, 0.5, -2.0]),
            "tenor_fracs": sorted(r.sample([0.15, 0.3, 0.45, 0.6, 0.75, 0.9, 1.2, 1.5], 4)),
            "maturity": r.choice([0.25, 1.0]), "engine": r.choice(["standard", "mlmc", "mlmc"]), "max_level": r.choice([1, 2]),
            "n": r.choice([3, 6]), "seed": r.choice([None, 11])}


def execute_nd(wd, sc):
    from rpylib.distribution.sampling import SamplingMethod
    from rpylib.grid.spatial import CTMCUniformGrid
    from rpylib.model.levydrivensde.levydrivensde import LevyDrivenSDEModel, Constant, DiagX, LiborSDEFunction
    from rpylib.model.levymodel.levymodel import ModelType
    from rpylib.model.utils import create_levy_model, create_levy_copula_model, create_clayton_copula, create_independent_copula
    from rpylib.montecarlo.configuration import ConfigurationMultiLevel, ConfigurationStandard
    from rpylib.montecarlo.multilevel.engine import Engine as ML
    from rpylib.montecarlo.standard.engine import Engine as STD
    from rpylib.process.coupling.couplingsde import CouplingSDE
    from rpylib.process.markovchain.markovchainsde import MarkovChainSDE
    from rpylib.product.payoff import PayoffOnTheFly
    from rpylib.product.product import Product
    from rpylib.product.underlying import Spot
    from . import c02nd

    _install()
    _install_nd()
    V, errors = [], []
    wd.c16 = {"driver": [], "drifts": {}}
    wd.check_path_reads = True
    coef, c, T, m = sc["coef"], sc["c"], sc["maturity"], sc["m"]
    cls = "copula-driver|a=" + {"const": "constant", "diag": "diag(x)", "libor": "sigma(t)*x", "libormodel": "sigma(t)*x+libor-drift"}[coef]

    def add(sig, detail):
        if not any(v["sig"] == sig for v in V):
            V.append({"sig": sig, "oracle": sig.split("|")[0], "detail": detail})

    sigma = np.array([[0.5, 1.5], [0.8, 1.25], [1.0, 1.0]])[:m]
    tenors = np.array(sc["tenor_fracs"][:m + 1]) * T
    x0 = np.array([0.02, 0.025, 0.03])[:m].copy() if coef != "const" else np.array([1.0, 0.5, 2.0])[:m].copy()
    drift_levels = {}
    try:
        models = []
        for name in sc["margins"]:
            mt, kw = c02nd.MARGINS[name]
            models.append(create_levy_model(ModelType[mt])(**{k: v for k, v in kw.items()}))
        cop = sc["copula"]
        copula = create_independent_copula() if cop["kind"] == "independent" else create_clayton_copula(theta=cop["theta"], eta=cop["eta"])
        driver = create_levy_copula_model(models, copula)
        if coef == "const":
            a = Constant(m, 2, c)
        elif coef == "diag":
            a = DiagX(2)
        else:
            a = LiborSDEFunction(sigma=sigma.copy(), tenors=tenors)
        if coef == "libormodel":
            from rpylib.model.levydrivensde.levylibormodel import LevyLiborModel

            tenors[-1] = max(tenors[-1], 1.25 * T)  # the model discounts up to its last tenor only
            model = LevyLiborModel(libor_rates=x0.copy(), tenors=[float(t_) for t_ in tenors], sigma=sigma.copy(), driver=driver)
            wd.probes["c16.nd_state_dependent_sde_drift"] += 1
        else:
            model = LevyDrivenSDEModel(driver=driver, x0=x0.copy(), a=a)
        grid = CTMCUniformGrid.create_from_fixed_nb_of_points(h=sc["h"], nb_of_points=sc["ngrid"], dimension=2)
        method = SamplingMethod[c02nd.ND_METHODS[sc["method"]]]
        product = Product(payoff_underlying=Spot(), payoff=PayoffOnTheFly(lambda u: float(np.sum(u))), maturity=T)
        if sc["engine"] == "standard":
            proc = MarkovChainSDE(model, method, grid)
            STD(ConfigurationStandard(mc_paths=sc["n"], nb_of_processes=1, seed=sc["seed"]), proc).price(product)
        else:
            cp = CouplingSDE(model=model, grid=grid, method=method)
            # chain drifts level by level, as the engine builds them (recorded through the 1-d hooks' nd twin below)
            import rpylib.process.coupling.couplingsde as csde

            orig_next = csde.CouplingSDE.next_level

            def rec_next(self, *a_, **k_):
                r_ = orig_next(self, *a_, **k_)
                drift_levels[self.level] = np.array(self.driver_coupling_process.fine_process.process_drift(), dtype=float).reshape(-1)
                return r_

            csde.CouplingSDE.next_level = rec_next
            try:
                ML(ConfigurationMultiLevel(initial_level=0, maximum_level=sc["max_level"], initial_mc_paths=sc["n"],
                                           nb_of_processes=1, seed=sc["seed"]), cp).price_with_constant_mc_paths_and_level(product)
            finally:
                csde.CouplingSDE.next_level = orig_next
        wd.probes["c16.nd_run"] += 1
    except HarnessError:
        raise
    except Exception as e:
        import traceback

        errors.append({"kind": type(e).__name__, "msg": str(e)[:160], "where": traceback.extract_tb(e.__traceback__)[-1].name})
        wd.probes["c16.run_raised"] += 1
    samples = [s for s in wd.samples if "drift" in s]
    _check_reads(samples, add)
    drivers = wd.c16["driver"]
    pattern, nontrivial = [], False
    if len(samples) != len(drivers):
        errors.append({"kind": "reference", "msg": f"{len(samples)} SDE paths vs {len(drivers)} driver paths"})
    else:
        level0_drift = None
        for s, d in zip(samples, drivers):
            times, dp = s["times"], d[1]
            if times.shape != dp["times"].shape or np.any(times != dp["times"]):
                add(f"C16.times|SDE path is not on its driver's own time grid|{d[0]}|{cls}", {})
                continue
            pattern.append(min(int(times.size), 6))
            if times.size >= 3:
                nontrivial = True
            if d[0] == "single":
                mu = d[2]
                level0_drift = mu
                sdd = wd.c16.get("sde_drift") if coef == "libormodel" else None
                ref = _euler_nd(x0, coef, c, mu, times, np.diff(dp["diff"], axis=-1), np.diff(dp["jump"], axis=-1), sigma, tenors, sdd)
                got = x0.reshape(-1, 1) + (s["drift"] + s["diff"] + s["jump"])
                wd.probes["c16.nd_single_path_checked"] += 1
                scale = 1.0 + np.max(np.abs(ref))
                if got.shape != ref.shape or not np.allclose(got, ref, rtol=1e-10, atol=1e-12 * scale):
                    add(f"C16.euler|single-process path is not the Euler scheme of its driver path|{cls}",
                        {"got": np.ravel(got).tolist()[:6], "expected": np.ravel(ref).tolist()[:6]})
            else:
                mu_f, level = d[2], d[3]
                mu_c = drift_levels.get(level - 1) if level >= 2 else level0_drift
                wd.probes["c16.nd_coupled_path_checked"] += 1
                tot = s["drift"] + s["diff"] + s["jump"]
                for ci, (name, mu) in enumerate((("fine", mu_f), ("coarse", mu_c))):
                    if mu is None:
                        wd.probes["c16.coarse_drift_unknown"] += 1
                        continue
                    sdd = wd.c16.get("sde_drift") if coef == "libormodel" else None
                    ref = _euler_nd(x0, coef, c, mu, times, np.diff(dp["diff"][ci], axis=-1), np.diff(dp["jump"][ci], axis=-1), sigma, tenors, sdd)
                    got = x0.reshape(-1, 1) + np.asarray(tot[ci])
                    scale = 1.0 + np.max(np.abs(ref))
                    if got.shape != ref.shape or not np.allclose(got, ref, rtol=1e-10, atol=1e-12 * scale):
                        add(f"C16.euler|{name} component of the coupled pair is not the Euler scheme of its driver path|{cls}",
                            {"level": level, "got": np.ravel(got).tolist()[:6], "expected": np.ravel(ref).tolist()[:6]})
    key = hashlib.sha256(repr(("nd", sc["margins"], coef, m, sc["engine"], sc["max_level"], tuple(pattern))).encode()).hexdigest()[:16]
    return {"violations": V, "errors": errors, "info": {"paths": len(samples)}, "key": key, "nontrivial": nontrivial}
