"""C07 - standard Monte-Carlo price, error and control-variate adjustment are textbook.

Workload: the REAL standard engine, statistics, path manager, products, payoffs and control variates, driven by a
scripted process whose every sample is identifiable, through the simulated pool (chunking, scheduling, per-task
pickling) or the single-process loop. Reference model = the world's sample ledger + plain numpy.
"""
import hashlib
import json

import numpy as np

from simkit.world import sub_rng, HarnessError
from . import stubs

ID = "C07"
RULE = ("one world per seed: explicit list of n unique terminal values, payoff (call/put/forward; scalar or 1-4 vector "
        "strikes), 0-3 control products (scalar/vector prices; prices exact / sample-mean / off), notional, discount "
        "factor, spot statistics on/off, nb_of_processes in {1,2,3,4,7,None}, scheduler decisions from the world PRNG. "
        "non-trivial = run completed with n>=2; distinct = hash(n, payoff dim, #controls, nproc, chunk->worker vector)")
REAL = ["rpylib.montecarlo.standard.engine", "rpylib.montecarlo.statistic.{statistic,tools}", "rpylib.montecarlo.path",
        "rpylib.product.{product,payoff,underlying}", "rpylib.montecarlo.configuration",
        "multiprocess.reduction.ForkingPickler for every task"]
STUB = ["process -> scenarios.stubs.ScriptedProcess", "pathos pool -> SimPool", "clock/pid/entropy/RNG seams",
        "gmpy2.qdiv, tqdm"]
ASSUMPTIONS = ["payoff reference formulas (max(+-(S-K),0), S-K) written independently in the oracle",
               "regression coefficient compared only when the controls' covariance is well conditioned "
               "(min |entry| >= 1e-9 and cond <= 1e8), otherwise only 'variance not larger than raw' is required"]
TIERS = {
    "quick": {"worlds": 8000, "wall": 500, "shrink_budget": 60,
              "required_probes": ["c07.run_completed", "c07.vector_payoff", "c07.with_controls", "c07.pool_run",
                                  "c07.cv_mean_equals_price", "c07.engine_reused", "c07.error_queried_before_price"]},
    "thorough": {"worlds": 60000, "wall": 2900, "shrink_budget": 150,
                 "required_probes": ["c07.run_completed", "c07.vector_payoff", "c07.with_controls", "c07.pool_run",
                                     "c07.cv_mean_equals_price", "pool.n_lt_W", "c07.n_equals_1"]},
}


def generate(seed, tier="quick"):
    r = sub_rng(seed, "c07.scenario")
    n = r.choice([1, 2, 3, 4, 5, 7, 8, 13, 16, 17, 31, 64, 100, 257, 1000])
    if r.random() < 0.002:
        n = 131073  # beyond 2^17 samples (a block-wise reduction or a narrow index type shows only there)
    x0 = r.choice([100.0, 50.0, 1.0])
    scale = x0 * r.choice([0.05, 0.2, 0.5])
    vals = []
    seen = set()
    while len(vals) < n + 8:
        v = round(max(-0.9 * x0, r.gauss(0.0, scale)) + r.random() * 1e-6, 9)
        if v not in seen:
            seen.add(v)
            vals.append(v)
    k = r.choice([1, 1, 1, 2, 3, 4])
    strikes = [round(x0 * r.uniform(0.8, 1.2), 6) for _ in range(k)]
    payoff = {"kind": r.choice(["call", "put", "forward", "uo_call", "di_put"]) if k == 1 else r.choice(["call", "put"]),
              "strikes": strikes}
    if sub_rng(seed, "c07.coupon").random() < 0.06:
        # a payoff that hands out ONE persistent array on every call (a fixed coupon vector): whatever the engine does to
        # the value it receives must not reach the payoff's own state (own stream: the other draws are unchanged)
        payoff["kind"] = "coupon"
    if payoff["kind"] in ("uo_call", "di_put"):
        # a path-dependent payoff: it observes the path through Product.underlying_value (knock event on x0 and the spot)
        payoff["barrier"] = round(x0 + (1 if payoff["kind"] == "uo_call" else -1) * scale * r.choice([0.3, 1.0, 2.0]), 6)
    ncv = r.choice([0, 0, 1, 1, 2, 3])
    controls = []
    for j in range(ncv):
        ck = r.choice(["forward", "call", "put", "logfwd"]) if k == 1 else r.choice(["call", "put"])
        cst = [round(x0 * r.uniform(0.7, 1.3), 6) for _ in range(k)]
        controls.append({"kind": ck, "strikes": cst, "notional": r.choice([1.0, 1.0, 2.0, 2.0, 250000.0]),
                         "price_mode": r.choice(["sample_mean", "exact_plus_noise", "off"])})
    warm = r.choice([None, None, None, "more", "fewer", "same"])
    warm_n = None if warm is None else {"more": n + r.choice([1, 3, 17]), "fewer": max(1, n - r.choice([1, 2, 5])), "same": n}[warm]
    warm_vals = []
    while warm_n is not None and len(warm_vals) < warm_n + 4:
        v = round(max(-0.9 * x0, r.gauss(0.0, scale)) + r.random() * 1e-6, 9)
        if v not in seen:
            seen.add(v)
            warm_vals.append(v)
    sc = {
        "world_seed": seed,
        "n": n,
        "warm_n": warm_n,
        "warm_values": warm_vals,
        "x0": x0,
        "values": vals,
        "payoff": payoff,
        "controls": controls,
        "notional": r.choice([1.0, 1.0, 3.0, 0.5]),
        "df": r.choice([1.0, 0.97, 0.5]),
        "maturity": r.choice([0.5, 1.0, 2.0]),
        "spot_stats": r.random() < 0.3,
        "nproc": r.choice([1, 1, 2, 3, 4, 7, None]),
        "seed": r.choice([None, 3]),
        "env": {"cpu_count": r.choice([1, 2, 4, 16]), "path_cost": r.choice([1e-6, 1e-3]),
                "spawn_cost": 1e-4},
    }
    if n > 100000:
        sc["nproc"], sc["warm_n"], sc["warm_values"] = 1, None, []  # one long single-process run
    if sc["nproc"] != 1 and r.random() < 0.2:
        # fault: one task of the pool's map call dies in its worker (before or after doing its work)
        sc["env"]["task_fail_one_in"] = r.choice([1, 2])
    # history of READS of one statistics object: which accessor the caller uses first
    sc["query_order"] = r.choice(["price_first", "price_first", "error_first"])
    # the engine / configuration / control-variates objects have priced ANOTHER product before, one whose underlying is
    # of the type of one of the controls (so that the control's value was implied from the payoff underlying then)
    sc["warm_product"] = "logspot" if (warm_n is not None and len(payoff["strikes"]) == 1
                                        and any(c["kind"] == "logfwd" for c in controls) and r.random() < 0.6) else None
    return sc


def shrink_candidates(sc):
    import copy

    def mod(**kw):
        c = copy.deepcopy(sc)
        c.update(kw)
        return c

    if sc.get("warm_n") is not None:
        yield mod(warm_n=None, warm_values=[])
        if sc["warm_n"] > 2:
            yield mod(warm_n=max(1, sc["warm_n"] // 2))
    for smaller in (1, 2, 3, 5, 8):
        if smaller < sc["n"]:
            yield mod(n=smaller)
    if sc["controls"]:
        yield mod(controls=[])
        if len(sc["controls"]) > 1:
            yield mod(controls=sc["controls"][:1])
    if len(sc["payoff"]["strikes"]) > 1:
        c = mod()
        c["payoff"]["strikes"] = sc["payoff"]["strikes"][:len(sc["payoff"]["strikes"]) - 1]
        for cv in c["controls"]:
            cv["strikes"] = cv["strikes"][:len(c["payoff"]["strikes"])]
        yield c
    if sc["nproc"] is None:
        yield mod(nproc=sc["env"]["cpu_count"])
    elif sc["nproc"] > 2:
        yield mod(nproc=2)
    elif sc["nproc"] == 2:
        yield mod(nproc=1)
    if sc["notional"] != 1.0:
        yield mod(notional=1.0)
    if sc["df"] != 1.0:
        yield mod(df=1.0)
    if sc["spot_stats"]:
        yield mod(spot_stats=False)
    if sc["payoff"]["kind"] != "call":
        c = mod()
        c["payoff"]["kind"] = "call"
        yield c
    if any(abs(v) > 1 for v in sc["values"]) and sc["n"] <= 8:
        c = mod()
        c["values"] = [float(i + 1) for i in range(len(sc["values"]))]
        yield c


# ---- reference payoffs (independent of rpylib.product.payoff) -------------------------------------
def _ref_payoff(kind, strikes, s, x0=None, barrier=None):
    k = np.asarray(strikes, dtype=float)
    if kind == "coupon":
        return k.copy()
    if kind == "uo_call":
        return np.where(max(x0, s) > barrier, 0.0, np.maximum(s - k, 0.0))
    if kind == "di_put":
        return np.where(min(x0, s) < barrier, np.maximum(k - s, 0.0), 0.0)
    if kind == "logfwd":
        # log-contract: control on another underlying (LogSpot) than the payoff's (Spot): its value is recomputed from
        # the path by the engine instead of being implied from the payoff underlying
        return np.log(s) - np.log(k)
    if kind == "call":
        return np.maximum(s - k, 0.0)
    if kind == "put":
        return np.maximum(k - s, 0.0)
    return s - k


def _mk_payoff(kind, strikes, barrier=None):
    from rpylib.product.payoff import Vanilla, PayoffType, Forward

    st = strikes[0] if len(strikes) == 1 else list(strikes)
    if kind == "coupon":
        from rpylib.product.payoff import FixedCoupon

        return FixedCoupon(coupon=np.array(strikes, dtype=float))
    if kind in ("uo_call", "di_put"):
        from rpylib.product.payoff import Barrier, BarrierType

        return Barrier(strike=st, payoff_type=PayoffType.CALL if kind == "uo_call" else PayoffType.PUT,
                       barrier_type=BarrierType.UP_AND_OUT if kind == "uo_call" else BarrierType.DOWN_AND_IN, barrier=barrier)
    if kind == "call":
        return Vanilla(strike=st if len(strikes) == 1 else np.array(st), payoff_type=PayoffType.CALL)
    if kind == "put":
        return Vanilla(strike=st if len(strikes) == 1 else np.array(st), payoff_type=PayoffType.PUT)
    return Forward(strike=st)


def execute(wd, sc):
    from rpylib.montecarlo.configuration import ConfigurationStandard
    from rpylib.montecarlo.standard.engine import Engine
    from rpylib.product.product import Product, ControlVariates
    from rpylib.product.underlying import Spot

    n, k = sc["n"], len(sc["payoff"]["strikes"])
    df, x0 = sc["df"], sc["x0"]
    warm_n = sc.get("warm_n")
    warm_vals = list(sc.get("warm_values", []))[: (warm_n or 0)] if warm_n else []
    all_values = warm_vals + list(sc["values"])
    off = len(warm_vals)
    stubs.prepare_stub_world(wd, values=all_values)
    V, errors = [], []
    # reference rows for ALL listed values (the engine may use any n of them)
    S_all = x0 + np.asarray(all_values, dtype=float)

    def ref_rows(kind, strikes, notional, barrier=None):
        return np.array([notional * _ref_payoff(kind, strikes, s, x0, barrier) * df for s in S_all]).reshape(len(S_all), -1)

    Y_all = ref_rows(sc["payoff"]["kind"], sc["payoff"]["strikes"], sc["notional"], sc["payoff"].get("barrier"))
    if "barrier" in sc["payoff"]:
        ev = [bool(np.ravel(_ref_payoff(sc["payoff"]["kind"], [-1e300 if sc["payoff"]["kind"] == "uo_call" else 1e300], s, x0, sc["payoff"]["barrier"]))[0] != 0.0)
              for s in S_all[off:off + n]]
        if any(ev) and not all(ev):
            wd.probes["c07.path_dependent_payoff_event_mixed"] += 1
    X_all = [ref_rows(c["kind"], c["strikes"], c["notional"]) for c in sc["controls"]]
    # control prices: as given to the engine before the run
    cv_prices = []
    for c, X in zip(sc["controls"], X_all):
        m = X[off:off + n].mean(axis=0)
        if c["price_mode"] == "sample_mean":
            p = m
        elif c["price_mode"] == "exact_plus_noise":
            p = m + 0.05 * (1.0 + np.abs(m))
        else:
            p = m * 0.5 - 1.0
        cv_prices.append(float(p[0]) if k == 1 else np.array(p))
    process = stubs.ScriptedProcess(x0=x0, maturity=sc["maturity"], df_value=df)
    product = Product(payoff_underlying=Spot(), payoff=_mk_payoff(sc["payoff"]["kind"], sc["payoff"]["strikes"], sc["payoff"].get("barrier")),
                      maturity=sc["maturity"], notional=sc["notional"])
    cv = None
    if sc["controls"]:
        from rpylib.product.underlying import LogSpot
        from rpylib.product.payoff import Forward as _Fwd

        cv_products = [Product(payoff_underlying=LogSpot(), payoff=_Fwd(strike=float(np.log(c["strikes"][0]))),
                               maturity=sc["maturity"], notional=c["notional"]) if c["kind"] == "logfwd" else
                       Product(payoff_underlying=Spot(), payoff=_mk_payoff(c["kind"], c["strikes"]),
                               maturity=sc["maturity"], notional=c["notional"]) for c in sc["controls"]]
        if any(c["kind"] == "logfwd" for c in sc["controls"]):
            wd.probes["c07.control_on_other_underlying"] += 1
        cv = ControlVariates(cv_products, cv_prices)
        wd.probes["c07.with_controls"] += 1
    cfg = ConfigurationStandard(mc_paths=n, seed=sc["seed"], control_variates=cv,
                                activate_spot_statistics=sc["spot_stats"], nb_of_processes=sc["nproc"])
    eng = Engine(cfg, process)
    try:
        if warm_n:
            # history: the same engine object has priced before, with another number of paths
            cfg.mc_paths = warm_n
            if sc.get("warm_product") == "logspot":
                from rpylib.product.underlying import LogSpot as _LS
                from rpylib.product.payoff import Forward as _F

                eng.price(Product(payoff_underlying=_LS(), payoff=_F(strike=float(np.log(x0))), maturity=sc["maturity"]))
                wd.probes["c07.engine_priced_a_product_on_another_underlying_before"] += 1
            else:
                eng.price(product)
            cfg.mc_paths = n
            wd.faults["history.engine_reused"] += 1
            wd.probes["c07.engine_reused"] += 1
        led0 = len(wd.stub_ledger)
        stats = eng.price(product)
    except HarnessError:
        raise
    except Exception as e:
        errors.append({"kind": type(e).__name__, "msg": str(e)[:200]})
        wd.probes["c07.run_raised"] += 1
        return {"violations": V, "errors": errors, "info": {}, "key": None, "nontrivial": False}
    wd.probes["c07.run_completed"] += 1
    if k > 1:
        wd.probes["c07.vector_payoff"] += 1
    if sc["nproc"] != 1:
        wd.probes["c07.pool_run"] += 1
    if n == 1:
        wd.probes["c07.n_equals_1"] += 1
    cls = f"k={'1' if k == 1 else 'vector'}|cv={'0' if not sc['controls'] else 'yes'}|procs={'1' if sc['nproc'] == 1 else 'pool'}"
    if warm_n:
        cls += "|engine-reused-after-" + ("more" if warm_n > n else "fewer" if warm_n < n else "same") + "-paths"

    # ---- ledger clause: exactly n samples, each used exactly once --------------------------------
    led = wd.stub_ledger[led0:]
    used_serials = [e["serial"] for e in led]
    if len(used_serials) != n:
        V.append({"sig": f"C07.count|number of simulated paths differs from the configured number|{'more' if len(used_serials) > n else 'fewer'}|{cls}",
                  "oracle": "count", "detail": {"configured": n, "simulated": len(used_serials)}})
    rows = getattr(getattr(stats, "_payoff_statistics", None), "stats", None)
    Yref = Y_all[used_serials] if used_serials else np.zeros((0, k))
    tol = dict(rtol=1e-12, atol=1e-12)
    if rows is not None:
        rows = np.asarray(rows, dtype=float)
        if rows.shape != (n, k):
            V.append({"sig": f"C07.rows|payoff array has the wrong shape|{cls}", "oracle": "rows",
                      "detail": {"shape": list(rows.shape), "expected": [n, k]}})
        else:
            a = rows[np.lexsort(rows.T[::-1])]
            b = Yref[np.lexsort(Yref.T[::-1])] if len(Yref) else Yref
            if a.shape != b.shape or not np.allclose(a, b, **tol):
                # diagnose: dropped / duplicated / placeholder / foreign
                ref_set = {tuple(np.round(x, 9)) for x in Yref}
                row_list = [tuple(np.round(x, 9)) for x in rows]
                foreign = [i for i, x in enumerate(row_list) if x not in ref_set]
                dup = len(row_list) - len(set(row_list))
                missing = len(ref_set - set(row_list))
                mech = "foreign-row" if foreign else ("duplicated-row" if dup and missing else "mismatch")
                V.append({"sig": f"C07.rows|stored payoffs are not the simulated samples each exactly once|{mech}|{cls}",
                          "oracle": "rows", "detail": {"foreign_row_indices": foreign[:5], "duplicates": dup,
                                                       "missing_samples": missing, "n": n}})
    else:
        wd.probes["c07.rows_not_observable"] += 1

    # ---- price / error ---------------------------------------------------------------------------
    def vec(x):
        return np.atleast_1d(np.asarray(x, dtype=float))

    if sc.get("query_order") == "error_first" and n >= 2:
        # the caller asks for the errors before the prices: accessors must be pure reads of the stored samples
        wd.probes["c07.error_queried_before_price"] += 1
        try:
            stats.mc_stddev(no_control_variates=True)
            stats.mc_stddev()
        except Exception as e:
            errors.append({"kind": type(e).__name__, "msg": "mc_stddev: " + str(e)[:120]})
    if len(Yref) == n and n >= 1:
        raw_mean = Yref.mean(axis=0)
        got_raw = vec(stats.price(no_control_variates=True))
        if got_raw.shape != raw_mean.shape or not np.allclose(got_raw, raw_mean, rtol=1e-10, atol=1e-12):
            V.append({"sig": f"C07.price|raw price is not df * mean(notional * payoff) over the simulated paths|{cls}",
                      "oracle": "price", "detail": {"got": got_raw.tolist(), "expected": raw_mean.tolist()}})
        if n >= 2:
            raw_err = Yref.std(axis=0, ddof=1) / np.sqrt(n)
            got_err = vec(stats.mc_stddev(no_control_variates=True))
            if got_err.shape != raw_err.shape or not np.allclose(got_err, raw_err, rtol=1e-9, atol=1e-13):
                ratio = None
                with np.errstate(all="ignore"):
                    rr = got_err / raw_err if got_err.shape == raw_err.shape else None
                if rr is not None and np.all(np.isfinite(rr)) and np.allclose(rr, rr.flat[0], rtol=1e-9):
                    ratio = float(rr.flat[0])
                mech = "off-by-constant-factor" if ratio is not None else "other"
                V.append({"sig": f"C07.stderr|reported error is not std(ddof=1)/sqrt(n) per component|{mech}|{cls}",
                          "oracle": "stderr", "detail": {"got": got_err.tolist(), "expected": raw_err.tolist(),
                                                         "ratio": ratio, "n": n, "k": k}})
        # ---- control variates --------------------------------------------------------------------
        if sc["controls"] and n >= 3:
            Xs = [X[used_serials] for X in X_all]  # each (n, k)
            got_cv = vec(stats.price())
            got_cv_err = vec(stats.mc_stddev())
            for comp in range(k):
                Xc = np.column_stack([X[:, comp] for X in Xs])  # (n, ncv)
                y = Yref[:, comp]
                p = np.array([float(np.atleast_1d(pp)[comp]) for pp in cv_prices])
                Sx = np.atleast_2d(np.cov(Xc.T, bias=True))
                Sxy = np.array([np.mean((Xc[:, j] - Xc[:, j].mean()) * (y - y.mean())) for j in range(Xc.shape[1])])
                # the regression is equivariant under a rescaling of the controls: it is solved here for the STANDARDISED
                # controls (correlation matrix), so that controls of very different scales (a control with a large
                # notional next to a unit one) are still decided; the library works on the unscaled covariance in double
                # precision: its result is trusted to cond(Sx) * eps only
                sd = np.sqrt(np.clip(np.diag(Sx), 0.0, None))
                cond_x = np.linalg.cond(Sx) if np.all(sd > 0) else np.inf
                R = Sx / np.outer(sd, sd) if np.all(sd > 0) else None
                well = (np.amin(np.abs(Sx)) >= 1e-9 and R is not None and np.linalg.cond(R) <= 1e6 and cond_x <= 1e12)
                raw_var = y.var()
                adj_rows = getattr(getattr(stats, "_payoff_statistics_with_cv", None), "stats", None)
                if well:
                    b = np.linalg.lstsq(R, Sxy / sd, rcond=None)[0] / sd
                    adj = y - (Xc - p) @ b
                    exp_price = adj.mean()
                    scale = float(np.max(np.abs(y))) + float(np.max(np.abs((Xc - p) * b))) + 1e-300
                    if cond_x > 1e8:
                        wd.probes["c07.controls_of_very_different_scales"] += 1
                    if not np.isclose(got_cv[comp], exp_price, rtol=1e-7, atol=(1e-9 + 1e3 * cond_x * 2.2e-16) * scale):
                        V.append({"sig": f"C07.cv|control-variate price is not mean(Y - b*(X - price_X)) with the regression b*|{cls}",
                                  "oracle": "cv", "detail": {"component": comp, "got": float(got_cv[comp]),
                                                             "expected": float(exp_price), "b_star": b.tolist()}})
                    exp_err = adj.std(ddof=1) / np.sqrt(n)
                    # absolute tolerance relative to the data scale: with a (nearly) perfectly replicating control the
                    # adjusted samples are constant up to rounding and their spread is numerical noise
                    if not np.isclose(got_cv_err[comp], exp_err, rtol=1e-6, atol=(1e-9 + 1e3 * cond_x * 2.2e-16) * scale):
                        V.append({"sig": f"C07.cv|control-variate error is not the standard error of the adjusted samples|{cls}",
                                  "oracle": "cv", "detail": {"component": comp, "got": float(got_cv_err[comp]),
                                                             "expected": float(exp_err)}})
                if all(c["price_mode"] == "sample_mean" for c in sc["controls"]):
                    wd.probes["c07.cv_mean_equals_price"] += 1
                    scale0 = float(np.max(np.abs(y))) + float(np.max(np.abs(Xc))) + 1e-300
                    if not np.isclose(got_cv[comp], raw_mean[comp], rtol=1e-9, atol=1e-9 * scale0):
                        V.append({"sig": f"C07.cv|adjusted price differs from the raw mean although mean(X) equals price_X|{cls}",
                                  "oracle": "cv", "detail": {"component": comp, "got": float(got_cv[comp]),
                                                             "raw": float(raw_mean[comp])}})
                if adj_rows is not None and np.asarray(adj_rows).shape == (n, k):
                    v_adj = np.asarray(adj_rows, dtype=float)[:, comp].var()
                    if v_adj > raw_var * (1 + 1e-9) + 1e-12 * (1.0 + float(np.max(np.abs(y))) ** 2):
                        V.append({"sig": f"C07.cv|sample variance with control variates exceeds the raw one|{cls}",
                                  "oracle": "cv", "detail": {"component": comp, "adjusted": float(v_adj), "raw": float(raw_var)}})
    # ---- reading the results does not change them: every accessor again, in another order ------------------------
    if len(Yref) == n and n >= 2:
        def snap():
            out = []
            for f in (lambda: stats.price(no_control_variates=True), lambda: stats.mc_stddev(no_control_variates=True),
                      lambda: stats.price(), lambda: stats.mc_stddev()):
                try:
                    out.append(vec(f()).tolist())
                except Exception as e:
                    out.append("raised " + type(e).__name__)
            return out

        first, second = snap(), snap()
        if json.dumps(first) != json.dumps(second):
            V.append({"sig": f"C07.reads|reading price and error twice gives different values (an accessor changed the stored samples)|{cls}",
                      "oracle": "reads", "detail": {"first": first, "second": second}})
        if not np.allclose(np.asarray(first[0], dtype=float), raw_mean, rtol=1e-10, atol=1e-12):
            V.append({"sig": f"C07.reads|raw price read after the errors were read is no longer df * mean(notional * payoff)|{cls}",
                      "oracle": "reads", "detail": {"got": first[0], "expected": raw_mean.tolist()}})
    # de-duplicate by signature
    seen = set()
    V = [v for v in V if not (v["sig"] in seen or seen.add(v["sig"]))]
    assign = tuple((e[2], e[3]) for e in wd.events if e[0] == "task.start")
    key = hashlib.sha256(repr((n, k, len(sc["controls"]), sc["nproc"], assign)).encode()).hexdigest()[:16]
    return {"violations": V, "errors": errors, "info": {"n": n, "k": k, "ncv": len(sc["controls"])}, "key": key,
            "nontrivial": n >= 2}


def summarise(sc, o):
    return {"scenario": {"n": sc["n"], "payoff": sc["payoff"], "controls": [(c["kind"], c["price_mode"]) for c in sc["controls"]],
                         "nproc": sc["nproc"], "notional": sc["notional"], "df": sc["df"], "values_head": sc["values"][:4]},
            "decisions": len(o.get("trace", [])), "violations": [v["sig"] for v in o["violations"]], "info": o.get("info")}
