"""C15, several dimensions: the 2-d Levy-copula chain simulator and its coupled version (scenarios.c15 delegates here
when ``process.kind`` is ``copula`` / ``copula_coupling``). Same executable reference as in one dimension, with vector
jump sizes and a diffusion matrix."""
import copy
import hashlib

import numpy as np

from simkit import rngseam
from simkit.world import sub_rng, HarnessError
from . import c02nd

_installed = False


def _install():
    global _installed
    if _installed:
        return
    import rpylib.process.markovchain.markovchainlevycopula as mclc
    import rpylib.process.coupling.couplinglevycopula as clc

    orig = mclc.MCLevyCopulaSimulation.helper_simulate_levy_copula_markov_chain

    def helper(self, all_nb_of_jumps):
        values, incs = orig(self, all_nb_of_jumps)
        wd = rngseam.ACTIVE
        if wd is not None and getattr(wd, "c15", None) is not None:
            wd.c15["chain"].append(([int(n) for n in all_nb_of_jumps], [[tuple(int(i) for i in s) for s in sl] for sl in incs]))
        return values, incs

    mclc.MCLevyCopulaSimulation.helper_simulate_levy_copula_markov_chain = helper
    o_slice = clc.CouplingLevyCopulaSimulation._coupling_states_for_a_slice

    def slice_(self, slice_fine_states):
        out = o_slice(self, slice_fine_states)
        wd = rngseam.ACTIVE
        if wd is not None and getattr(wd, "c15", None) is not None:
            wd.c15["coarse"].append([np.array(x, dtype=float, copy=True) for x in out])
        return out

    clc.CouplingLevyCopulaSimulation._coupling_states_for_a_slice = slice_
    # the coarse increment chosen for EACH fine jump (top-level calls of the private, name-mangled method)
    name = "_CouplingLevyCopulaSimulation__coupling_state"
    o_state = getattr(clc.CouplingLevyCopulaSimulation, name, None)
    if o_state is not None:
        def coupling_state(self, increment, axis_coordinates=None):
            out = o_state(self, increment, axis_coordinates)
            wd = rngseam.ACTIVE
            if axis_coordinates is None and wd is not None and getattr(wd, "c15", None) is not None:
                wd.c15.setdefault("coarse_jumps", []).append(np.array(out, dtype=float, copy=True))
            return out

        setattr(clc.CouplingLevyCopulaSimulation, name, coupling_state)
    _installed = True


def generate_process(r):
    proc = c02nd.generate_process(r)
    proc["margins"] = proc["margins"][:2]
    proc["grid"] = {"kind": "fixed", "h": proc["grid"]["h"], "n": r.choice([4, 6])}
    proc["kind"] = r.choice(["copula", "copula_coupling"])
    return proc


def _close(a, b, scale=1.0):
    a, b = np.asarray(a, dtype=float), np.asarray(b, dtype=float)
    return a.shape == b.shape and np.allclose(a, b, rtol=1e-11, atol=1e-12 * (1.0 + scale))


def execute(wd, sc):
    from rpylib.distribution.sampling import SamplingMethod
    from rpylib.grid.spatial import CTMCUniformGrid
    from rpylib.process.coupling.couplinglevycopula import CouplingProcessLevyCopula
    from rpylib.process.markovchain.markovchainlevycopula import MarkovChainLevyCopula
    from rpylib.product.payoff import PayoffOnTheFly, CDS
    from rpylib.product.product import Product
    from rpylib.product.underlying import Spot, NthDefaultTimes
    from .c03 import _pristine_copula_model

    _install()
    V, errors = [], []
    wd.record_values = True
    wd.c15 = {"chain": [], "coarse": [], "sizes": []}
    T, mode, npaths = sc["maturity"], sc["mode"], sc["npaths"]
    spec = sc["process"]
    coupled = spec["kind"] == "copula_coupling"
    dim = 2
    ur = sub_rng(sc["useed"], "c15.uniforms")
    phase = {"name": "setup", "poisson_idx": 0, "path": None, "precompute_paths": npaths}

    def scripted_uniforms(n, style):
        if n == 0:
            return np.zeros(0)
        if style == "early":
            u = [ur.uniform(1e-9, 0.05) for _ in range(n)]
        elif style == "cluster":
            c = ur.uniform(0.05, 0.95)
            u = [min(1 - 1e-9, max(1e-9, c + ur.uniform(-1e-4, 1e-4))) for _ in range(n)]
        elif style == "late":
            u = [ur.uniform(0.02, 0.3) for _ in range(n)]
        else:
            u = [ur.uniform(1e-9, 1 - 1e-9) for _ in range(n)]
        return np.array(u)

    def script(wd_, ctx, fname, cons, a, k, val):
        if "PoissonNumpy.sample" in cons:
            if phase["name"] == "precompute":
                idx = phase["poisson_idx"]
                phase["poisson_idx"] += 1
                kk, pp = divmod(idx, phase["precompute_paths"])
                if phase["precompute_paths"] == npaths and kk < 1:
                    wd_.faults["rng.scripted_poisson_count"] += 1
                    return np.array([sc["counts"][pp][0]])
                return np.array([0])
            if phase["name"] == "path":
                wd_.faults["rng.scripted_poisson_count"] += 1
                return np.array([sc["counts"][phase["path"]][0]])
            return val
        if "jump_times_from_nb_of_jumps" in cons and phase["name"] == "path":
            wd_.faults["rng.scripted_jump_times"] += 1
            return scripted_uniforms(int(np.asarray(val).size), sc["time_style"][phase["path"]])
        return val

    wd.script = script
    eps = sc["eps"] if mode == "maxstep" else None
    try:
        lcm = _pristine_copula_model(spec)
        grid = CTMCUniformGrid.create_from_fixed_nb_of_points(h=spec["grid"]["h"], nb_of_points=spec["grid"]["n"], dimension=2)
        method = SamplingMethod[c02nd.ND_METHODS[spec["method"]]]
        if mode == "jump":
            product = Product(payoff_underlying=NthDefaultTimes(default_levels=[-0.1, -0.1], index=1),
                              payoff=CDS(recovery_rate=0.4, spread=0.01, maturity=T, discounting=lcm.df), maturity=T)
        else:
            product = Product(payoff_underlying=Spot(), payoff=PayoffOnTheFly(lambda u: float(np.sum(u))), maturity=T)
        if coupled:
            process = CouplingProcessLevyCopula(lcm, grid, method)
        else:
            process = MarkovChainLevyCopula(lcm, grid, method)
        process.initialisation(product, max_step_epsilon=eps)
        phase.update(name="precompute", poisson_idx=0)
        process.pre_computation(npaths, product)
        if coupled:
            for lvl in range(max(1, sc.get("level", 1))):
                # engine history: deep copy of the previous level's object, (re-)initialised and refined with the step cap
                # of its own level (CouplingSDE initialises and then refines; the cap shrinks with h^BG)
                if lvl > 0:
                    process = copy.deepcopy(process)
                    if eps is not None:
                        eps = eps * sc.get("eps_decay", 1.0)
                        if sc.get("eps_decay", 1.0) != 1.0:
                            wd.probes["c15.step_cap_changes_between_levels"] += 1
                    if sc.get("reinit"):
                        process.initialisation(product, max_step_epsilon=eps)
                phase.update(name="precompute", poisson_idx=0)
                process.next_level(npaths, None, product, max_step_epsilon=eps)
            phase.update(name="precompute", poisson_idx=0)
            process.pre_computation(npaths, product)
    except HarnessError:
        raise
    except Exception as e:
        wd.script = None
        errors.append({"kind": type(e).__name__, "msg": "set-up: " + str(e)[:160]})
        wd.probes["c15.setup_raised"] += 1
        return {"violations": V, "errors": errors, "info": {}, "key": None, "nontrivial": False}
    axes = [np.asarray(a, dtype=float) for a in process.grid.axes]
    origin = tuple(int(c) for c in process.grid.origin_coordinate)
    if coupled:
        D_f, D_c = np.asarray(process._diffusion_matrix_h, dtype=float), np.asarray(process._diffusion_matrix_2h, dtype=float)
    else:
        D_f, D_c = np.asarray(process._path_simulation.diffusion_matrix, dtype=float), None
    cls = f"sim={'copula-coupled' if coupled else 'copula'}|mode={mode}"
    nontrivial = False
    patterns = []

    def add(sig, detail):
        if not any(v["sig"] == sig for v in V):
            V.append({"sig": sig, "oracle": sig.split("|")[0], "detail": detail})

    for p in range(npaths):
        phase.update(name="path", poisson_idx=0, path=p)
        d0, c0, k0 = len(wd.draws), len(wd.c15["chain"]), len(wd.c15["coarse"])
        j0 = len(wd.c15.get("coarse_jumps", []))
        try:
            path = process.simulate_one_path_with_coupling() if coupled else process.simulate_one_path()
        except HarnessError:
            raise
        except Exception as e:
            errors.append({"kind": type(e).__name__, "msg": f"path {p}: " + str(e)[:160]})
            wd.probes["c15.path_raised"] += 1
            continue
        wd.probes["c15.path_checked"] += 1
        wd.probes["c15.nd_path_checked"] += 1
        from .c15 import _transport

        _transport(add, path, cls)
        draws = wd.draws[d0:]
        times = np.array(path.times(), dtype=float)
        diff = np.array(path.diffusion_path, dtype=float)
        jumps = np.array(path.jump_path, dtype=float)
        n_j = sc["counts"][p][0]
        patterns.append(min(n_j, 3))
        if n_j == 0:
            wd.probes["c15.zero_jump_path"] += 1
        else:
            nontrivial = True
        if coupled:
            wd.probes["c15.coupled_path"] += 1
        recs = wd.c15["chain"][c0:]
        if len(recs) != 1 or recs[0][0] != [n_j]:
            add(f"C15.counts|jump counts used by the path are not the pre-drawn / drawn Poisson counts|{cls}",
                {"path": p, "used": [r_[0] for r_ in recs], "drawn": [n_j]})
            continue
        incs = recs[0][1][0]
        sizes = np.array([[axes[k][origin[k] + inc[k]] for k in range(dim)] for inc in incs], dtype=float).reshape(len(incs), dim)
        cumj = np.cumsum(sizes, axis=0).T if len(incs) else np.zeros((dim, 0))
        cumc = None
        if coupled:
            # running sum of the per-jump coarse increments (independent of the library's own accumulation)
            cj = wd.c15.get("coarse_jumps", [])[j0:]
            if len(cj) != len(incs):
                add(f"C15.counts|number of coupled coarse increments differs from the number of fine jumps|{cls}",
                    {"path": p, "coarse_increments": len(cj), "fine_jumps": len(incs)})
                continue
            cumc = np.cumsum(np.array(cj, dtype=float).reshape(len(cj), dim), axis=0).T if len(cj) else np.zeros((dim, 0))
        fine_j = jumps[0] if coupled else jumps
        fine_d = diff[0] if coupled else diff
        if times.size == 0 or times[0] != 0.0 or np.any(jumps[..., 0] != 0.0) or np.any(diff[..., 0] != 0.0):
            add(f"C15.start|path does not start at value 0 at time 0|{cls}", {"path": p})
        if np.any(np.diff(times) <= 0) or not np.isclose(times[-1], T, rtol=0, atol=1e-12 * T):
            add(f"C15.times|times are not strictly increasing up to the maturity|{cls}", {"path": p, "times": times.tolist()[:10]})
            continue
        if fine_j.shape[-1] != times.size or fine_d.shape[-1] != times.size:
            add(f"C15.shape|path components are not aligned on the path times|{cls}", {"path": p})
            continue
        if mode == "fixed":
            exp_j = np.concatenate((np.zeros((dim, 1)), cumj[:, -1:] if len(incs) else np.zeros((dim, 1))), axis=1)
            if not _close(fine_j, exp_j, np.max(np.abs(exp_j))):
                add(f"C15.jumps|jump component is not the running sum of all jump increments up to each date|other|{cls}",
                    {"path": p, "got": fine_j.tolist(), "expected": exp_j.tolist()})
            if coupled:
                exp_c = np.concatenate((np.zeros((dim, 1)), cumc[:, -1:] if cumc.shape[1] else np.zeros((dim, 1))), axis=1)
                if not _close(jumps[1], exp_c, np.max(np.abs(exp_c))):
                    add(f"C15.jumps|coarse jump component is not the running sum of the coupled increments up to each date|other|{cls}",
                        {"path": p})
            # diffusion from the consumed pre-drawn row
            used = [c for c in wd.consumed if c[0] == "bm"][-1:]
            bm = [d for d in wd.draws if d[0] == "np" and d[1] == "normal" and "pre_computation" in d[4] and d[8] is not None]
            w = None
            if used and bm:
                serial = used[0][1]
                for batch in wd.row_batches:
                    if batch[0] == "bm" and batch[1] <= serial < batch[1] + batch[2]:
                        cand = [d for d in bm if np.asarray(d[8]).shape[0] == batch[2]]
                        if cand:
                            w = np.asarray(cand[-1][8])[serial - batch[1]]
            if w is not None and np.asarray(w).shape == (dim, 1):
                sq = np.sqrt(np.diff(times))
                exp_d = np.concatenate((np.zeros((dim, 1)), np.cumsum(sq * (D_f @ w), axis=1)), axis=1)
                if not _close(fine_d, exp_d, np.max(np.abs(exp_d))):
                    add(f"C15.diffusion|diffusion component is not the running sum of the scaled Brownian increments|{cls}", {"path": p})
                if coupled:
                    exp_dc = np.concatenate((np.zeros((dim, 1)), np.cumsum(sq * (D_c @ w), axis=1)), axis=1)
                    if not _close(diff[1], exp_dc, np.max(np.abs(exp_dc))):
                        add(f"C15.diffusion|coarse diffusion component is not driven by the same Brownian increments|{cls}", {"path": p})
            continue
        # jump-time / maximum-step modes
        us = [np.asarray(d[8], dtype=float) for d in draws if d[1] in ("random_sample", "random") and "jump_times_from_nb_of_jumps" in d[4]]
        u = us[0] if us else np.zeros(0)
        jt = np.sort(T * u)
        if jt.size != len(incs):
            add(f"C15.counts|number of jump sizes differs from the number of jump times|{cls}", {"path": p})
            continue
        base_t = np.concatenate(([0.0], jt, [T]))
        base_j = np.concatenate((np.zeros((dim, 1)), cumj, cumj[:, -1:] if len(incs) else np.zeros((dim, 1))), axis=1)
        if coupled:
            base_c = np.concatenate((np.zeros((dim, 1)), cumc, cumc[:, -1:] if cumc.shape[1] else np.zeros((dim, 1))), axis=1)
        if mode == "jump" or (eps is not None and eps >= T):
            if not _close(times, base_t, T):
                add(f"C15.times|path times are not 0, the sorted jump times and the maturity|{cls}", {"path": p})
                continue
            if not _close(fine_j, base_j, np.max(np.abs(base_j))):
                add(f"C15.jumps|jump component is not the running sum of the jump sizes at the jump times|{cls}",
                    {"path": p, "got": fine_j.tolist(), "expected": base_j.tolist()})
            if coupled and not _close(jumps[1], base_c, np.max(np.abs(base_c))):
                add(f"C15.jumps|coarse jump component is not the running sum of the coupled states at the jump times|{cls}", {"path": p})
        if mode == "maxstep":
            wd.probes["c15.maxstep_mode"] += 1
            gaps = np.diff(base_t)
            if np.any(gaps > eps):
                wd.probes["c15.gap_gt_eps"] += 1
            if gaps[-1] > eps:
                wd.probes["c15.tail_gap_gt_eps"] += 1
            steps = np.diff(times)
            big = np.flatnonzero(steps > eps * (1 + 1e-12))
            if big.size:
                i = int(big[0])
                last_jump = jt[-1] if jt.size else 0.0
                where = "jump-free-path" if jt.size == 0 else ("gap-between-last-jump-and-maturity" if times[i] >= last_jump - 1e-15 else "interior")
                add(f"C15.maxstep|a step of the returned path exceeds the maximum step|{where}|{cls}",
                    {"path": p, "eps": eps, "step": float(steps[i]), "from": float(times[i]), "n_jumps": int(jt.size)})
            ok_pts = True
            for t0, j0 in zip(base_t, base_j.T):
                near = np.flatnonzero(np.abs(times - t0) <= 1e-9 * max(1.0, T))
                if near.size == 0 or not any(np.allclose(fine_j[:, q], j0, rtol=0, atol=1e-11 * (1 + np.max(np.abs(j0)))) for q in near):
                    ok_pts = False
                    add(f"C15.maxstep|an original jump time/value is missing from the refined path|{cls}", {"path": p, "time": float(t0)})
                    break
            if ok_pts:
                is_orig = np.array([np.any(np.abs(base_t - t) <= 1e-9 * max(1.0, T)) for t in times])
                for q in range(1, times.size):
                    if not is_orig[q] and not np.allclose(fine_j[:, q], fine_j[:, q - 1], rtol=0, atol=1e-11):
                        add(f"C15.maxstep|an inserted point does not repeat the jump value of the preceding point|{cls}", {"path": p, "index": q})
                        break
                    if coupled and not is_orig[q] and not np.allclose(jumps[1][:, q], jumps[1][:, q - 1], rtol=0, atol=1e-11):
                        add(f"C15.maxstep|an inserted point does not repeat the coarse jump value of the preceding point|{cls}", {"path": p, "index": q})
                        break
        ws = [np.asarray(d[8], dtype=float) for d in draws if d[1] == "normal"]
        nsteps = times.size - 1
        if ws and ws[-1].size == dim * nsteps:
            w = ws[-1].reshape((dim, nsteps))
            sq = np.sqrt(np.diff(times))
            exp_d = np.concatenate((np.zeros((dim, 1)), np.cumsum(sq * (D_f @ w), axis=1)), axis=1)
            if not _close(fine_d, exp_d, np.max(np.abs(exp_d))):
                add(f"C15.diffusion|diffusion component is not the running sum of the scaled Brownian increments|{cls}", {"path": p})
            if coupled:
                exp_dc = np.concatenate((np.zeros((dim, 1)), np.cumsum(sq * (D_c @ w), axis=1)), axis=1)
                if not _close(diff[1], exp_dc, np.max(np.abs(exp_dc))):
                    add(f"C15.diffusion|coarse diffusion component is not driven by the same Brownian increments|{cls}", {"path": p})
        else:
            add(f"C15.diffusion|number of Brownian increments differs from the number of steps of the path|{cls}",
                {"path": p, "steps": int(nsteps), "normals": [int(x.size) for x in ws]})
    wd.script = None
    key = hashlib.sha256(repr((spec, mode, tuple(patterns), None if sc["eps"] is None else round(sc["eps"] / T, 3))).encode()).hexdigest()[:16]
    return {"violations": V, "errors": errors, "info": {"paths": npaths, "dim": dim}, "key": key, "nontrivial": nontrivial}
