"""Scripted processes for the bookkeeping properties (C05 C06 C07).

The engines take any duck-typed process. These stubs hand out samples whose values are *identifiable*: every sample
gets a world-unique serial (from the active world, so uniqueness survives deep copies and the per-task pickle round
trip of the simulated pool) and a value that no other sample has. What the engines then do with the samples is
checked against the world's sample ledger.
"""
import copy

import numpy as np

from rpylib.montecarlo.path import StochasticJumpPath
from rpylib.process.process import ProcessRepresentation
from simkit import rngseam
from simkit.world import HarnessError


class TaggedPath(StochasticJumpPath):
    """a path carrying the serial of the sample it belongs to"""

    def __init__(self, times, diff, jumps, tag):
        super().__init__(times, diff, jumps)
        self.verif_tag = tag


class StubModel:
    def __init__(self, df_value=1.0, log=False):
        self._df = df_value
        self.process_representation = ProcessRepresentation.LOG if log else ProcessRepresentation.IDENDITY
        self.characteristic_function = None  # COSPricer(model) only stores it

    def dimension(self):
        return 1

    def dimension_model(self):
        return 1

    def df(self, t):
        return self._df


def _world():
    wd = rngseam.ACTIVE
    if wd is None:
        raise HarnessError("scripted process used outside a world")
    return wd


class ScriptedProcess:
    """stand-in for a Process in the standard engine: sample i (in order of generation, world-wide) has terminal
    value ``values[i]`` (explicit list held by the world); exhausting the list is a bound, not a verdict"""

    def __init__(self, x0, maturity, df_value=1.0):
        self.x0 = float(x0)
        self.maturity = float(maturity)
        self.model = StubModel(df_value)
        self.process_representation = self.model.process_representation
        self._times = np.array([0.0, self.maturity])
        self.pre_computation_calls = 0

    def dimension(self):
        return 1

    def initialisation(self, product, max_step_epsilon=None):
        pass

    def pre_computation(self, mc_paths, product):
        self.pre_computation_calls += 1

    def deterministic_path(self, times):
        return self.x0 + 0.0 * np.asarray(times, dtype=float)

    def df(self, t):
        return self.model.df(t)

    def one_simulation_cost(self, product):
        return 1.0

    def reset_one_simulation_cost(self):
        pass

    def simulate_one_path(self):
        wd = _world()
        serial = wd.stub_serial
        wd.stub_serial += 1
        if serial >= len(wd.stub_values):
            raise HarnessError("scripted process exhausted (engine asked for more samples than the bound)")
        v = wd.stub_values[serial]
        wd.stub_ledger.append({"serial": serial, "level": None, "fine": v, "coarse": None, "ctx": wd.current.name,
                               "chunk": wd.chunk})
        return TaggedPath(self._times, np.array([0.0, v]), np.zeros(2), serial)


class _FineProcess:
    def __init__(self, owner):
        self.owner = owner
        self.process_representation = owner.model.process_representation

    def deterministic_path(self, times):
        return self.owner.x0 + 0.0 * np.asarray(times, dtype=float)

    def df(self, t):
        return self.owner.model.df(t)


class ScriptedCoupling:
    """stand-in for a CouplingProcess in the multilevel engine.

    Level-l samples are drawn from per-level laws scripted by the scenario (mean / variance decay, optional zero or
    heavy-tailed levels, per-level cost) with the world's private stub PRNG; every sample is entered in the world's
    stub ledger with its level, serial, fine and coarse values."""

    def __init__(self, law, x0, maturity, df_value=1.0):
        self.law = law
        self.x0 = float(x0)
        self.maturity = float(maturity)
        self.model = StubModel(df_value)
        self.fine_process = _FineProcess(self)
        self.level = 0
        self._times = np.array([0.0, self.maturity])

    # -- engine protocol -------------------------------------------------------------------------
    def initialisation(self, product, max_step_epsilon=None):
        pass

    def pre_computation(self, mc_paths, product):
        wd = _world()
        wd.control.append(("stub.pre_computation", self.level, int(mc_paths)))

    def reset_one_simulation_cost(self):
        pass

    def one_simulation_cost(self, product):
        c = self.law["cost0"] * 2.0 ** (self.law["gamma"] * self.level)
        if self.level in self.law.get("zero_cost_levels", []):
            c = 0.0
        return c

    def next_level(self, mc_paths, path_managers, product, max_step_epsilon=None):
        wd = _world()
        self.level += 1
        wd.control.append(("stub.next_level", self.level, int(mc_paths)))
        if self.level > wd.stub_max_level_seen:
            wd.stub_max_level_seen = self.level
        if path_managers is not None:
            x0 = self.x0
            pm = copy.deepcopy(path_managers[-1])
            pm.update(self.fine_process.process_representation)

            def coupling_deterministic_path(times_input):
                t = np.asarray(times_input, dtype=float)
                return np.array([x0 + 0.0 * t, x0 + 0.0 * t])

            pm.deterministic_path = coupling_deterministic_path
            path_managers.append(pm)

    # -- samples ---------------------------------------------------------------------------------
    def _draw(self, level):
        wd = _world()
        if wd.stub_serial >= wd.stub_cap:
            raise HarnessError(f"sample cap {wd.stub_cap} reached")
        serial = wd.stub_serial
        wd.stub_serial += 1
        g = wd.stub_rng
        law = self.law
        base = law["mean0"] + law["sd0"] * g.gauss(0.0, 1.0)
        if level == 0:
            fine, coarse = base, None
        else:
            m = law["c_mean"] * 2.0 ** (-law["alpha"] * level)
            s = (law["c_var"] * 2.0 ** (-law["beta"] * level)) ** 0.5
            if level in law.get("zero_var_levels", []):
                s = 0.0
            if level in law.get("zero_mean_levels", []):
                m = 0.0
            z = g.gauss(0.0, 1.0)
            if level in law.get("heavy_levels", []):
                z = z / max(1e-3, abs(g.gauss(0.0, 1.0)))  # Cauchy-like
            coarse = base
            fine = base + m + s * z
        wd.stub_ledger.append({"serial": serial, "level": level, "fine": fine, "coarse": coarse,
                               "ctx": wd.current.name, "chunk": wd.chunk})
        return serial, fine, coarse

    def simulate_one_path(self):
        serial, fine, _ = self._draw(0)
        return TaggedPath(self._times, np.array([0.0, fine]), np.zeros(2), serial)

    def simulate_one_path_with_coupling(self):
        serial, fine, coarse = self._draw(self.level)
        diff = np.array([[0.0, fine], [0.0, coarse]])
        return TaggedPath(self._times, diff, np.zeros((2, 2)), serial)


def prepare_stub_world(wd, values=None, cap=60000):
    from simkit.world import sub_rng

    wd.stub_serial = 0
    wd.stub_values = list(values or [])
    wd.stub_ledger = []
    wd.stub_rng = sub_rng(wd.seed, "stub-payoffs")
    wd.stub_cap = cap
    wd.stub_max_level_seen = 0


class InjectedPathFailure(RuntimeError):
    """fault: the simulation of one path fails in the middle of a run (a run interrupted at an arbitrary sample)"""


def _maybe_fail(wd, serial):
    if getattr(wd, "stub_fail_at", None) is not None and serial == wd.stub_fail_at:
        wd.stub_fail_at = None  # once
        wd.faults["run.path_simulation_failed"] += 1
        raise InjectedPathFailure(f"injected: simulation of sample {serial} failed")


class ScriptedPathProcess:
    """standard-engine process handing out explicit multi-point paths (world list ``stub_paths``): sample i has
    diffusion component ``stub_paths[i][0]`` and pure-jump component ``stub_paths[i][1]`` on the process's times"""

    def __init__(self, base, times, log, df_value=1.0, drift=0.0):
        self.base = float(base)
        self.drift = float(drift)
        self._times = np.asarray(times, dtype=float)
        self.model = StubModel(df_value, log=log)
        self.process_representation = self.model.process_representation

    def dimension(self):
        return 1

    def initialisation(self, product, max_step_epsilon=None):
        pass

    def pre_computation(self, mc_paths, product):
        pass

    def deterministic_path(self, times):
        return self.base + self.drift * np.asarray(times, dtype=float)

    def df(self, t):
        return self.model.df(t)

    def one_simulation_cost(self, product):
        return 1.0

    def reset_one_simulation_cost(self):
        pass

    def simulate_one_path(self):
        wd = _world()
        serial = wd.stub_serial
        wd.stub_serial += 1
        _maybe_fail(wd, serial)
        if serial >= len(wd.stub_paths):
            raise HarnessError("scripted path process exhausted")
        entry = wd.stub_paths[serial]
        d, j = entry[0], entry[1]
        times = np.array(entry[2], dtype=float) if len(entry) > 2 and entry[2] is not None else self._times
        wd.stub_ledger.append({"serial": serial, "level": None, "ctx": wd.current.name})
        return TaggedPath(times, np.array(d, dtype=float), np.array(j, dtype=float), serial)


class ScriptedPathCoupling:
    """multilevel stand-in handing out explicit multi-point (fine, coarse) path pairs: the coarse path of sample i is
    sample i's path, the fine path is the next entry of the list (so that fine and coarse differ and may cross a
    barrier independently)"""

    def __init__(self, base, times, log, df_value=1.0, names=None, drift=0.0):
        self.names = names
        self.drift = float(drift)
        self.base = float(base)
        self._times = np.asarray(times, dtype=float)
        self.model = StubModel(df_value, log=log)
        self.fine_process = _FineProcessPath(self)
        self.level = 0

    def initialisation(self, product, max_step_epsilon=None):
        pass

    def pre_computation(self, mc_paths, product):
        pass

    def reset_one_simulation_cost(self):
        pass

    def one_simulation_cost(self, product):
        return 1.0

    def next_level(self, mc_paths, path_managers, product, max_step_epsilon=None):
        self.level += 1
        if path_managers is not None:
            base = self.base
            pm = copy.deepcopy(path_managers[-1])
            pm.update(self.fine_process.process_representation)

            names = self.names
            drift = self.drift

            def coupling_deterministic_path(times_input):
                t = np.asarray(times_input, dtype=float)
                out = np.array([base + drift * t, base + drift * t])
                return out[:, np.newaxis, :] if names else out

            pm.deterministic_path = coupling_deterministic_path
            path_managers.append(pm)

    def _next(self):
        wd = _world()
        serial = wd.stub_serial
        wd.stub_serial += 1
        _maybe_fail(wd, serial)
        if serial >= len(wd.stub_paths):
            raise HarnessError("scripted path coupling exhausted")
        return serial, wd.stub_paths[serial]

    def simulate_one_path(self):
        wd = _world()
        serial, entry = self._next()
        d, j = entry[0], entry[1]
        times = np.array(entry[2], dtype=float) if len(entry) > 2 and entry[2] is not None else self._times
        wd.stub_ledger.append({"serial": serial, "level": 0, "ctx": wd.current.name})
        return TaggedPath(times, np.array(d, dtype=float), np.array(j, dtype=float), serial)

    def simulate_one_path_with_coupling(self):
        wd = _world()
        s1, e1 = self._next()
        s2, e2 = self._next()
        # the pair lives on one time grid: the one of the first entry
        times = np.array(e1[2], dtype=float) if len(e1) > 2 and e1[2] is not None else self._times
        wd.stub_ledger.append({"serial": s1, "level": self.level, "ctx": wd.current.name})
        return TaggedPath(times, np.array([e1[0], e2[0]], dtype=float), np.array([e1[1], e2[1]], dtype=float), (s1, s2))


class _FineProcessPath:
    def __init__(self, owner):
        self.owner = owner
        self.process_representation = owner.model.process_representation

    def deterministic_path(self, times):
        return self.owner.base + self.owner.drift * np.asarray(times, dtype=float)

    def df(self, t):
        return self.owner.model.df(t)
