"""Builders: JSON-able scenario fragments -> real rpylib objects (public API only)."""
import numpy as np

from rpylib.distribution.sampling import SamplingMethod
from rpylib.grid.spatial import CTMCUniformGrid, CTMCGridGeometric, CTMCGridProbabilityStep
from rpylib.grid.time import TimeGrid
from rpylib.model.levymodel.levymodel import ModelType
from rpylib.model.utils import create_exponential_of_levy_model
from rpylib.process.coupling.couplingmarkovchain import CouplingMarkovChain
from rpylib.process.levyprocess import LevyProcess
from rpylib.process.markovchain.markovchain import MarkovChainProcess
from rpylib.product.payoff import Vanilla, PayoffType, Forward, Digital, CDS, Barrier, BarrierType, CallSpread, \
    Butterfly
from rpylib.product.product import Product
from rpylib.product.underlying import Spot, Underlying, DefaultTime

MODELS = {
    "hem": (ModelType.HEM, dict(sigma=0.10, p=0.6, eta1=25.0, eta2=40.0, intensity=5.0)),
    "hem_lowint": (ModelType.HEM, dict(sigma=0.05, p=0.5, eta1=20.0, eta2=25.0, intensity=0.7)),
    "hem_nosigma": (ModelType.HEM, dict(sigma=0.0, p=0.4, eta1=15.0, eta2=20.0, intensity=3.0)),
    "merton": (ModelType.MERTON, dict(sigma=0.10, sigma_j=0.05, mu_j=0.01, intensity=5.0)),
    "merton_lowint": (ModelType.MERTON, dict(sigma=0.05, sigma_j=0.08, mu_j=0.02, intensity=1.0)),
    "cgmy02": (ModelType.CGMY, dict(c=0.5, g=15.0, m=20.0, y=0.2)),
    "cgmy12": (ModelType.CGMY, dict(c=0.05, g=10.0, m=8.0, y=1.2)),
    "vg": (ModelType.VG, dict(sigma=0.1, nu=0.06, theta=0.1)),
    # strongly one-sided tails: model-truncated grids get many more states on one side of the origin than on the other
    "hem_rightskew": (ModelType.HEM, dict(sigma=0.10, p=0.9, eta1=8.0, eta2=40.0, intensity=5.0)),
    "hem_leftskew": (ModelType.HEM, dict(sigma=0.10, p=0.1, eta1=40.0, eta2=8.0, intensity=5.0)),
}
DIRECT_MODELS = ["hem", "hem_lowint", "merton", "merton_lowint"]  # models with an exact jump sampler
CHAIN_MODELS = ["hem", "hem_lowint", "hem_nosigma", "merton", "cgmy02", "cgmy12", "vg"]
SKEWED_MODELS = ["hem_rightskew", "hem_leftskew"]

METHODS = {
    "bst": SamplingMethod.BINARYSEARCHTREE,
    "huffman": SamplingMethod.HUFFMANNTREE,
    "inversion": SamplingMethod.INVERSION,
    "adapted1d": SamplingMethod.BINARYSEARCHTREEADAPTED1D,
    "alias": SamplingMethod.ALIAS,
    "table": SamplingMethod.TABLE,
}
WORKING_METHODS = ["bst", "huffman", "inversion", "adapted1d"]
COUPLING_METHODS = ["adapted1d", "inversion"]  # return python lists (the 1-d coupling tests ``if slice:``)


def build_model(name, spot=100.0, r=0.03, d=0.01):
    mt, kw = MODELS[name]
    return create_exponential_of_levy_model(mt)(spot=spot, r=r, d=d, **kw)


def build_grid(spec, model):
    kind = spec.get("kind", "uniform")
    if kind == "uniform":
        return CTMCUniformGrid(h=spec["h"], model=model)
    if kind == "fixed":
        return CTMCUniformGrid.create_from_fixed_nb_of_points(h=spec["h"], nb_of_points=spec["n"], dimension=1)
    if kind == "geometric":
        return CTMCGridGeometric(h=spec["h"], model=model, nb_of_points_on_each_side=spec["n"])
    if kind == "probstep":
        return CTMCGridProbabilityStep(h=spec["h"], model=model, minimum_probability_step=spec.get("pstep", 0.1))
    raise ValueError(kind)


def build_process(spec):
    """spec: {"kind": "levy"|"chain"|"coupling", "model":..., "grid":..., "method":...}"""
    model = build_model(spec["model"], spot=spec.get("spot", 100.0), r=spec.get("r", 0.03), d=spec.get("d", 0.01))
    kind = spec["kind"]
    if kind == "levy":
        return LevyProcess(model)
    grid = build_grid(spec["grid"], model)
    for _ in range(int(spec.get("refinements", 0))):
        grid.refine()  # what every level transition does before the next level's chain is built on the grid
    method = METHODS[spec["method"]]
    if kind == "chain":
        return MarkovChainProcess(model, method, grid)
    if kind == "coupling":
        return CouplingMarkovChain(model=model, method=method, grid=grid)
    raise ValueError(kind)


class DatedSpot(Underlying):
    """Harness underlying (public extension point ``Underlying``): observes the path on ``num`` equally spaced
    dates and returns the arithmetic mean of the observed spots, so that every date matters."""

    def __init__(self, num):
        self.num = int(num)

    def value(self, times, path, jump_path, payoff_underlying=None):
        return np.mean(path[..., 1:], axis=-1)

    def _value_log(self, times, path, jump_path, payoff_underlying=None):
        return np.mean(np.exp(path[..., 1:]), axis=-1)

    def compute_times_grid(self, maturity):
        return TimeGrid(start=0.0, end=maturity, num=self.num)


class DatedDefaultTime(DefaultTime):
    """Harness underlying: the library's default time observed on ``num`` equally spaced product dates (the simulators
    then draw their jumps date interval by date interval, also in the jump-time and maximum-step modes)"""

    def __init__(self, default_level, num):
        super().__init__(default_level)
        self.num = int(num)

    def compute_times_grid(self, maturity):
        return TimeGrid(start=0.0, end=maturity, num=self.num)


class StochasticDatesCall(Vanilla):
    """a call on the spot at maturity whose dates are declared path-dependent: the process is then simulated on its own
    jump times, and the payoff still sees everything that moves the spot (jumps, drift AND the diffusion part)"""

    def __init__(self, strike):
        from rpylib.product.payoff import PayoffDates

        super().__init__(strike=strike, payoff_type=PayoffType.CALL)
        self.payoff_dates_type = PayoffDates.STOCHASTIC


def build_product(spec, model=None):
    """spec: {"kind":..., "maturity":..., "dates": n (number of time points incl. 0), "strike":..., "notional":...}"""
    kind = spec["kind"]
    T = spec["maturity"]
    notional = spec.get("notional", 1.0)
    dates = spec.get("dates", 2)
    und = Spot() if dates <= 2 else DatedSpot(dates)
    k = spec.get("strike", 100.0)
    if kind == "call":
        pay = Vanilla(strike=k, payoff_type=PayoffType.CALL)
    elif kind == "put":
        pay = Vanilla(strike=k, payoff_type=PayoffType.PUT)
    elif kind == "forward":
        pay = Forward(strike=k)
    elif kind == "digital_call":
        pay = Digital(strike=k, payoff_type=PayoffType.CALL)
    elif kind == "digital_put":
        pay = Digital(strike=k, payoff_type=PayoffType.PUT)
    elif kind == "callspread":
        pay = CallSpread(strike1=k, strike2=k + spec.get("width", 10.0))
    elif kind == "butterfly":
        w = spec.get("width", 10.0)
        pay = Butterfly(strike1=k - w, strike2=k, strike3=k + w)
    elif kind == "barrier":
        pay = Barrier(strike=k, payoff_type=PayoffType[spec.get("cp", "CALL")],
                      barrier_type=BarrierType[spec["barrier_type"]], barrier=spec["barrier"])
    elif kind == "stoch_call":
        pay = StochasticDatesCall(k)
    elif kind == "cds":
        und = (DefaultTime(default_level=spec.get("default_level", -0.08)) if dates <= 2
               else DatedDefaultTime(spec.get("default_level", -0.08), dates))
        pay = CDS(recovery_rate=spec.get("recovery", 0.4), spread=spec.get("spread", 0.01), maturity=T,
                  discounting=model.df)
    else:
        raise ValueError(kind)
    return Product(payoff_underlying=und, payoff=pay, maturity=T, notional=notional)
