"""C06 - sample allocation meets the variance budget; runs stop only on stated criteria.

Same worlds as C05 (real multilevel engine + real Giles criteria, scripted coupling, simulated pool), other monitors:
  A  allocation: the variance share s and the squared-bias share b are MEASURED through the public callables
     (probe family with huge optimal sizes; bisection along a geometric sequence of level means whose true remaining
     bias is known); required s + b <= 1; every allocation call the run makes must respect its own share.
  L  bounded liveness: N_l never exceeds max(N0, 1, largest allocation seen for l); passes and samples bounded by
     B = sum_l max(N0, 1, Ns_l^max) + level_max + 2; the run terminates within the world's caps.
  M  no sample above the configured maximum level.
  S  stop reason: on return every level holds >= 1 simulated sample, the last criteria call returned true or the
     maximum level is reached, and N_l >= Ns_l / 1.01 for the last allocation.
"""
import hashlib

import numpy as np

from simkit.world import sub_rng
from . import mlmc_stub as M

ID = "C06"
RULE = ("same scenario family as C05 (label c06): adaptive / fixed multilevel runs with scripted per-level laws incl. "
        "zero-variance, zero-mean, heavy-tailed levels, initial_level > maximum_level misconfigurations (4%), Giles / "
        "scripted criteria; plus per world a probe family of 24 (V, C, rmse) vectors for the allocation function. "
        "non-trivial = completed adaptive run with >=1 allocation call and >=1 criteria call; distinct = hash of the "
        "sequence of (allocation vector, criteria result, level added) events")
REAL = ["rpylib.montecarlo.multilevel.criteria (compute_mc_paths_giles, criteria_giles, ConvergenceCriteria)",
        "rpylib.montecarlo.multilevel.engine", "rpylib.montecarlo.configuration (ConfigurationMultiLevel, ConvergenceRates)",
        "rpylib.montecarlo.statistic", "rpylib.montecarlo.path", "rpylib.product.*"]
STUB = ["coupling process -> scenarios.stubs.ScriptedCoupling", "pathos pool -> SimPool", "clock/pid/entropy/RNG seams",
        "gmpy2.qdiv, tqdm"]
ASSUMPTIONS = ["a level mean m observed k levels below the top implies a remaining bias (m / 2^(k alpha)) / (2^alpha - 1) at "
               "weak rate alpha (geometric tail): used to measure the squared-bias tolerance of the stopping test for "
               "k = 0, 1, 2 and alpha in {0.5, 0.75, 1, 1.5, 2} without reading its constant",
               "the allocation inequality is decided only for the vectors the runs produce plus the probe family"]
TIERS = {
    "quick": {"worlds": 900, "wall": 520, "shrink_budget": 50,
              "required_probes": ["c06.run_completed", "c06.alloc_calls", "c06.criteria_true", "c06.stopped_at_max_level",
                                  "c06.level_added", "c06.share_measured", "mlmc.long_creeping_history"]},
    "thorough": {"worlds": 20000, "wall": 2900, "shrink_budget": 150,
                 "required_probes": ["c06.run_completed", "c06.alloc_calls", "c06.criteria_true", "c06.stopped_at_max_level",
                                     "c06.level_added", "c06.share_measured", "c06.zero_variance_in_alloc",
                                     "c06.misconfigured_world", "mlmc.long_creeping_history"]},
}


def generate(seed, tier="quick"):
    sc = M.generate(seed, tier, label="c06")
    r = sub_rng(seed, "c06.theta")
    sc["theta"] = r.choice([0.1, 0.5, 0.6]) if r.random() < 0.1 else None
    return sc


shrink_candidates = M.shrink_candidates


def measure_shares():
    """(s, b): variance share of the allocation and squared-bias share of the stopping test, measured"""
    from rpylib.montecarlo.multilevel.criteria import compute_mc_paths_giles, criteria_giles

    s = 0.0
    for beta, gamma, nl in ((1.0, 1.0, 5), (2.0, 1.0, 4), (0.5, 1.5, 6), (1.0, 0.0, 3)):
        V = np.array([2.0 ** (-beta * l) for l in range(nl)])
        C = np.array([2.0 ** (gamma * l) for l in range(nl)])
        rmse = 1e-3
        N = np.asarray(compute_mc_paths_giles(rmse, V, C), dtype=float)
        s = max(s, float(np.sum(V / N) / rmse ** 2))
    # stopping test. A level mean m observed k levels below the top implies, at weak rate alpha, a remaining bias of
    # (m / 2^(k alpha)) / (2^alpha - 1) (geometric tail). For each k in {0,1,2} and several alpha the largest accepted m
    # is found by bisection with the other two means at zero: tau_k(alpha) = implied bias / rmse; b = max tau^2.
    # (the geometric sequence [4t, 2t, t] at alpha = 1 is the case where the three terms tie)
    rmse = 1.0
    b = 0.0
    worst = None
    for alpha in (0.5, 0.75, 1.0, 1.5, 2.0):
        for k in (0, 1, 2):
            lo, hi = 0.0, 64.0
            for _ in range(60):
                mid = 0.5 * (lo + hi)
                ml = np.zeros(3)
                ml[2 - k] = mid
                if criteria_giles(alpha, ml, rmse):
                    lo = mid
                else:
                    hi = mid
            tau = (lo / 2.0 ** (k * alpha)) / (2.0 ** alpha - 1.0) / rmse
            if tau ** 2 > b:
                b, worst = tau ** 2, (alpha, k)
    measure_shares.worst = worst
    # the supremum over a finite probe family under-estimates the share by the ceiling effect (~1e-7 relative)
    return s * (1 + 1e-5), b


def probe_family(seed):
    from simkit.world import sub_rng

    r = sub_rng(seed, "c06.probe")
    fam = []
    for _ in range(24):
        nl = r.choice([1, 2, 3, 5, 8])
        V = [r.choice([0.0, 1e-12, 1e-3, 1.0, 50.0, 1e6]) * r.random() for _ in range(nl)]
        C = [r.choice([1e-3, 1.0, 100.0, 1e6]) * (0.1 + r.random()) for _ in range(nl)]
        fam.append((r.choice([1e-3, 0.05, 1.0, 30.0]), V, C))
    return fam


def execute(wd, sc):
    import rpylib.montecarlo.multilevel.criteria as crit_mod

    shipped = getattr(crit_mod, "THETA", None)
    try:
        return _execute(wd, sc)
    finally:
        if shipped is not None:
            crit_mod.THETA = shipped  # worlds may also run one after the other in one interpreter (digest self-test)


def _execute(wd, sc):
    from rpylib.montecarlo.multilevel.criteria import compute_mc_paths_giles

    V, errors = [], []
    cls = f"criteria={sc['criteria']}|procs={'1' if sc['nproc'] == 1 else 'pool'}"
    # ---- configuration: the library's one knob for the split of rmse^2 between squared bias and variance is the module
    # constant THETA; a tenth of the worlds move it (each world lives in its own process) - the two shares must follow it
    import rpylib.montecarlo.multilevel.criteria as crit_mod

    theta = sc.get("theta")
    if theta is not None and hasattr(crit_mod, "THETA"):
        crit_mod.THETA = float(theta)
        wd.probes["c06.theta_moved"] += 1
        cls += "|theta-moved"
    # ---- A (shares) --------------------------------------------------------------------------------
    s, b = measure_shares()
    wd.probes["c06.share_measured"] += 1
    if s + b > 1.0 + 1e-4:
        V.append({"sig": "C06.A|variance share of the allocation plus squared-bias share of the stopping test exceeds rmse^2",
                  "oracle": "A", "detail": {"variance_share": round(s, 6), "squared_bias_share": round(b, 6),
                                            "binding (alpha, levels below the top)": getattr(measure_shares, "worst", None)}})
    for (rmse, vv, cc) in probe_family(sc["world_seed"]):
        vv, cc = np.array(vv), np.array(cc)
        N = np.asarray(compute_mc_paths_giles(rmse, vv, cc), dtype=float)
        pos = vv > 0
        with np.errstate(divide="ignore", invalid="ignore"):
            var = float(np.sum(vv[pos] / N[pos])) if pos.any() else 0.0
        if not var <= s * rmse ** 2 * (1 + 1e-9):
            V.append({"sig": "C06.A|allocation does not meet its variance share on a probe vector|positive costs",
                      "oracle": "A", "detail": {"rmse": rmse, "V": vv.tolist(), "C": cc.tolist(), "N": N.tolist(),
                                                "variance": var, "budget": s * rmse ** 2}})
            break
    # zero costs (the statement quantifies over them): a free level with positive variance
    for (rmse, vv, cc) in ((0.1, [1.0, 0.5], [1.0, 0.0]), (0.1, [1.0, 0.5], [0.0, 0.0]), (2.0, [3.0, 0.0, 1.0], [0.0, 1.0, 2.0])):
        vv, cc = np.array(vv), np.array(cc)
        N = np.asarray(compute_mc_paths_giles(rmse, vv, cc), dtype=float)
        pos = vv > 0
        with np.errstate(divide="ignore", invalid="ignore"):
            var = float(np.sum(vv[pos] / N[pos]))
        if not var <= s * rmse ** 2 * (1 + 1e-9):
            kind = "all-costs-zero" if not np.any(cc > 0) else "one-level-free"
            V.append({"sig": f"C06.A|allocation does not meet its variance share when a level with positive variance has zero cost|{kind}",
                      "oracle": "A", "detail": {"rmse": rmse, "V": vv.tolist(), "C": cc.tolist(), "N": N.tolist(),
                                                "variance": var, "budget": s * rmse ** 2}})
    rec = M.run(wd, sc, cap=60000)
    if rec.get("warmup_bound"):
        wd.probes["c06.warmup_bound_hit"] += 1
        return {"violations": [], "errors": [{"kind": "bound", "msg": rec["warmup_bound"]}], "info": {}, "key": None,
                "nontrivial": False}
    if rec["harness"]:
        wd.probes["c06.bound_hit"] += 1
        # L: the cap is 60000 samples; allocations seen so far tell whether it was a legitimate demand
        allocs = [c for c in rec["control"] if c[0] == "alloc"]
        demanded = max((sum(a[4]) for a in allocs), default=0)
        if demanded < 30000 and sc["n0"] * (sc["maximum_level"] + 1) < 30000:
            V.append({"sig": f"C06.L|sample cap reached although no allocation asked for that many samples|{cls}",
                      "oracle": "L", "detail": {"largest_total_allocation": demanded, "cap": 60000}})
        return {"violations": V, "errors": [{"kind": "bound", "msg": rec["harness"]}], "info": {}, "key": None,
                "nontrivial": False}
    if rec["error"]:
        errors.append(rec["error"])
        wd.probes["c06.run_raised"] += 1
    ledger, control = rec["ledger"], rec["control"]
    maximum_level = sc["maximum_level"]
    if sc.get("misconfigured"):
        wd.probes["c06.misconfigured_world"] += 1
    # ---- M ---------------------------------------------------------------------------------------------
    top = max((e["level"] for e in ledger), default=0)
    if top > maximum_level:
        V.append({"sig": f"C06.M|a level above the configured maximum was simulated|initial_level{'>' if sc['initial_level'] > maximum_level else '<='}maximum_level|variant={sc['variant']}",
                  "oracle": "M", "detail": {"maximum_level": maximum_level, "initial_level": sc["initial_level"],
                                            "highest_level_simulated": top}})
    if rec["aborted"] and top <= maximum_level:
        V.append({"sig": f"C06.L|run did not terminate within 400 passes|{cls}", "oracle": "L",
                  "detail": {"aborted": rec["aborted"], "passes": len(rec["passes"])}})
    # ---- in-run allocation calls ---------------------------------------------------------------------
    allocs = [c for c in control if c[0] == "alloc"]
    if allocs:
        wd.probes["c06.alloc_calls"] += 1
    for (_, rmse, vl, cl, ns) in ([] if sc.get("alloc_mode") in ("gate_boundary", "creep") else allocs):  # scripted allocations are not the library's
        vl, cl, ns = np.array(vl), np.array(cl), np.array(ns, dtype=float)
        if np.any(vl == 0):
            wd.probes["c06.zero_variance_in_alloc"] += 1
        if not (np.all(np.isfinite(vl)) and np.all(np.isfinite(cl))):
            V.append({"sig": f"C06.A|allocation called with non-finite variance or cost estimates|{cls}", "oracle": "A",
                      "detail": {"vl": vl.tolist(), "cl": cl.tolist()}})
            continue
        pos = vl > 0
        with np.errstate(divide="ignore", invalid="ignore"):
            var = float(np.sum(vl[pos] / ns[pos])) if pos.any() else 0.0
        zero_cost = bool(np.any(cl[pos] == 0)) if pos.any() else False
        if not var <= s * rmse ** 2 * (1 + 1e-9):
            V.append({"sig": f"C06.A|allocation made by a run does not meet its variance share|{'zero-cost-level' if zero_cost else 'positive-costs'}",
                      "oracle": "A", "detail": {"rmse": rmse, "vl": vl.tolist(), "cl": cl.tolist(), "Ns": ns.tolist(),
                                                "variance": var, "budget": s * rmse ** 2}})
    # ---- L: per-level counts bounded by the allocations ----------------------------------------------
    if sc["variant"] == "adaptive":
        nmax = {}
        for a in allocs:
            for lvl, n in enumerate(a[4]):
                nmax[lvl] = max(nmax.get(lvl, 0), int(n))
        counts = {}
        for e in ledger:
            counts[e["level"]] = counts.get(e["level"], 0) + 1
        for lvl, cnt in counts.items():
            bound = max(sc["n0"], 1, nmax.get(lvl, 0))
            if cnt > bound:
                V.append({"sig": f"C06.L|more samples simulated at a level than any allocation asked for|{cls}",
                          "oracle": "L", "detail": {"level": lvl, "simulated": cnt, "bound": bound}})
                break
        B = sum(max(sc["n0"], 1, nmax.get(lvl, 0)) for lvl in range(max(list(counts) + [0]) + 1)) + maximum_level + 2
        if len(rec["passes"]) > B + 2:
            V.append({"sig": f"C06.L|more passes than samples could justify|{cls}", "oracle": "L",
                      "detail": {"passes": len(rec["passes"]), "bound": B}})
    # ---- S: stop reason -----------------------------------------------------------------------------------
    stats = rec["stats"]
    if stats is not None:
        wd.probes["c06.run_completed"] += 1
    if stats is not None and sc["variant"] == "adaptive" and not sc.get("misconfigured"):
        final_nl = [int(x) for x in np.asarray(stats.mlmc_results.Nl).tolist()]
        L_final = len(final_nl) - 1
        counts = {}
        for e in ledger:
            counts[e["level"]] = counts.get(e["level"], 0) + 1
        empty = [lvl for lvl in range(L_final + 1) if counts.get(lvl, 0) == 0]
        crits = [c for c in control if c[0] == "criteria"]
        last_true = bool(crits) and crits[-1][4] is True
        if any(c[4] for c in crits):
            wd.probes["c06.criteria_true"] += 1
        if L_final == maximum_level and not last_true:
            wd.probes["c06.stopped_at_max_level"] += 1
        if L_final > sc["initial_level"]:
            wd.probes["c06.level_added"] += 1
        if empty:
            V.append({"sig": f"C06.S|run returned with a level that holds no simulated sample|{cls}", "oracle": "S",
                      "detail": {"levels_without_samples": empty, "Nl": final_nl}})
        if sc.get("rates") and sc["rates"][0] is not None and sc.get("criteria") == "giles":
            if sc["rates"][1] is None:
                wd.probes["c06.only_the_weak_rate_given"] += 1
            other = [c for c in crits if abs(float(c[1]) - float(sc["rates"][0])) > 1e-12]
            if other:
                V.append({"sig": f"C06.S|the bias test was run with another weak rate than the configured one|{'only-alpha-given' if sc['rates'][1] is None else 'all-rates-given'}|{cls}",
                          "oracle": "S", "detail": {"configured_alpha": sc["rates"][0], "alpha_used": float(other[0][1])}})
        if not last_true and L_final != maximum_level:
            V.append({"sig": f"C06.S|run returned although the bias test had not passed and the maximum level was not reached|{cls}",
                      "oracle": "S", "detail": {"final_level": L_final, "maximum_level": maximum_level,
                                                "criteria_calls": len(crits)}})
        same = [a for a in allocs if len(a[4]) == len(final_nl)]
        if same:
            ns = np.array(same[-1][4], dtype=float)
            if np.any(np.array(final_nl, dtype=float) < ns / 1.01 - 1e-9):
                V.append({"sig": f"C06.S|run returned with a level below its optimal number of samples (beyond the 1% rule)|{cls}",
                          "oracle": "S", "detail": {"Nl": final_nl, "Ns": ns.tolist()}})
    seen = set()
    V = [v for v in V if not (v["sig"] in seen or seen.add(v["sig"]))]
    evs = tuple((tuple(c[4]) if c[0] == "alloc" else c[4]) for c in control if c[0] in ("alloc", "criteria"))
    key = hashlib.sha256(repr(evs).encode()).hexdigest()[:16]
    nontrivial = stats is not None and sc["variant"] == "adaptive" and bool(allocs) and any(c[0] == "criteria" for c in control)
    info = {"passes": len(rec["passes"]), "samples": len(ledger), "allocs": len(allocs), "aborted": rec["aborted"],
            "shares": [round(s, 4), round(b, 4)]}
    return {"violations": V, "errors": errors, "info": info, "key": key, "nontrivial": nontrivial}


def summarise(sc, o):
    return {"scenario": {k: sc[k] for k in ("variant", "n0", "initial_level", "maximum_level", "rmse", "rates", "criteria",
                                            "nproc", "law")}, "decisions": len(o.get("trace", [])),
            "violations": [v["sig"] for v in o["violations"]], "info": o.get("info")}
