"""Shared world runner for C05 / C06: the REAL multilevel engine + statistics + path managers + products + control
variates + Giles criteria, driven by a scripted coupling process (scenarios.stubs.ScriptedCoupling) through the
single-process loop or the simulated pool. Everything the oracles need is collected in a record."""
import copy

import numpy as np

from simkit import rngseam
from simkit.world import sub_rng, HarnessError
from . import stubs


RESULT_FIELDS = ("ml", "vl", "cl", "mean_level_l", "var_level_l", "kurtosis", "consistency_check")


def read_results(res, order=None):
    """the figures of a results object, read in the given order (reads must not influence each other)"""
    out = {}
    with np.errstate(all="ignore"):
        for k in (order or RESULT_FIELDS):
            out[k] = np.array(getattr(res, k), dtype=float).tolist()
    return out


class VerdictAbort(Exception):
    """raised by a monitor to stop a run that has already violated a property (otherwise it would not terminate)"""
    verif_passthrough = True


def generate(seed, tier="quick", label="mlmc"):
    r = sub_rng(seed, label + ".scenario")
    variant = r.choice(["adaptive"] * 5 + ["fixed"])
    sd0 = r.choice([1.0, 5.0])
    alpha = r.choice([0.5, 1.0, 1.5])
    beta = r.choice([1.0, 2.0, 0.5])
    gamma = r.choice([1.0, 0.5, 1.5, 0.0])
    law = {"mean0": r.choice([10.0, 0.0, 100.0]), "sd0": sd0,
           "c_mean": sd0 * r.choice([0.5, 0.1, 0.02, 2.0]), "c_var": sd0 ** 2 * r.choice([0.3, 0.05, 1.0]),
           "alpha": alpha, "beta": beta, "gamma": gamma, "cost0": r.choice([1.0, 10.0, 0.1])}
    if r.random() < 0.25:
        law["zero_var_levels"] = sorted({r.randrange(1, 7) for _ in range(r.choice([1, 2]))})
    if r.random() < 0.2:
        law["zero_mean_levels"] = sorted({r.randrange(1, 7) for _ in range(r.choice([1, 2]))})
    if r.random() < 0.15:
        law["heavy_levels"] = [r.randrange(1, 5)]
    crit = r.choice(["giles"] * 5 + ["never", "always", "after_k", "run_to_max"])
    if variant == "fixed":
        initial_level = r.choice([0, 1, 2])
        maximum_level = initial_level + r.choice([0, 1, 2, 3])
        n0 = r.choice([1, 2, 3, 5, 17, 64, 200])
    else:
        initial_level = r.choice([2, 2, 2, 3, 4]) if crit == "giles" else r.choice([0, 1, 2, 3])
        maximum_level = initial_level + r.choice([0, 1, 2, 3, 4, 6])
        n0 = r.choice([1, 2, 3, 5, 10, 30, 100, 200])
    rates = None
    if r.random() < 0.6:
        a = alpha if r.random() < 0.7 else r.choice([0.5, 1.0, 2.0])
        b = beta if r.random() < 0.7 else r.choice([0.5, 1.0, 2.0])
        g = gamma if gamma > 0 and r.random() < 0.7 else r.choice([0.5, 1.0])
        if a >= 0.5 * min(b, g):
            rates = [a, b, g]
    ncv = r.choice([0, 0, 0, 1, 2])
    x0 = r.choice([100.0, 1.0])
    controls = [{"kind": r.choice(["call", "put"]), "strike": round(x0 + law["mean0"] + sd0 * r.uniform(-1, 1), 6),
                 "notional": r.choice([1.0, 2.0]), "price": round(sd0 * r.uniform(0.1, 1.0), 6)} for _ in range(ncv)]
    sc = {
        "world_seed": seed,
        "variant": variant,
        "law": law,
        "n0": n0,
        "initial_level": initial_level,
        "maximum_level": maximum_level,
        "rmse": sd0 * r.choice([1.0, 0.5, 0.2, 0.1, 0.05, 0.02]),
        "rates": rates,
        "criteria": crit,
        "after_k": r.choice([1, 2, 3]),
        "payoff": r.choice([{"kind": "forward", "strike": 0.0}, {"kind": "forward", "strike": 0.0},
                            {"kind": "call", "strike": round(x0 + law["mean0"], 6)}]),
        "controls": controls,
        "notional": r.choice([1.0, 1.0, 2.5]),
        "df": r.choice([1.0, 0.95]),
        "x0": x0,
        "maturity": 1.0,
        "nproc": r.choice([1, 1, 1, 2, 4, None]),
        "seed": r.choice([None, 5]),
        "env": {"cpu_count": r.choice([2, 4, 16]), "path_cost": 1e-5, "spawn_cost": 1e-4},
    }
    if r.random() < 0.04 and variant == "adaptive":
        sc["maximum_level"] = max(0, initial_level - r.choice([1, 2]))  # misconfiguration: initial above maximum
        sc["misconfigured"] = True
    if sc["nproc"] != 1 and r.random() < 0.15:
        # fault: a task of one of the run's map calls dies in its worker (each call hit with probability 1/k)
        sc["env"]["task_fail_one_in"] = r.choice([3, 8])
    # only the weak rate is given, the other two are left to the run's regression
    if sc["rates"] and variant == "adaptive" and r.random() < 0.25:
        sc["rates"] = [sc["rates"][0], None, None]
    # history: the SAME engine object has priced before, with a tighter tolerance (it then held more samples per level)
    sc["warm_rmse_factor"] = r.choice([0.5, 0.3]) if (variant == "adaptive" and not sc.get("misconfigured") and r.random() < 0.2) else None
    # ... or a fixed-level run through the other entry point of the same engine object
    sc["warm_kind"] = r.choice(["adaptive", "fixed_level"]) if sc["warm_rmse_factor"] else None
    # now and then ONE very large level (a block-wise reduction, a narrow counter or an index type only shows beyond 2^16
    # or 2^17 samples): fixed-level run, one or two levels, single process, no control
    if r.random() < 0.008:
        sc.update(variant="fixed", n0=r.choice([131073, 140001]), initial_level=0, maximum_level=r.choice([0, 0, 1]), controls=[],
                  nproc=1, big_level=True, warm_rmse_factor=None, misconfigured=False)
        sc["env"].pop("task_fail_one_in", None)
        variant = "fixed"
    # boundary-targeted allocation (the allocation callable is a public constructor argument): instead of sampling
    # trajectories until one happens to fall next to the 1% gate, the world's allocation steers ONE level to a size n*
    # in [99k, 100k) and then asks for n* + k samples - more than 1% more than the level has, less than 1% of what is asked
    if variant == "adaptive" and not sc.get("misconfigured") and not sc["controls"] and r.random() < 0.12:
        sc["alloc_mode"] = "gate_boundary"
        sc["criteria"] = "always"
        sc["warm_rmse_factor"] = None
        sc["gate_level"] = r.randrange(0, 4)
        sc["gate_k"] = r.choice([1, 2, 3, 5, 8])
        sc["gate_j"] = r.randrange(0, 8)
    # a LONG history of passes: the allocation asks, pass after pass, for just over 1% more of one level than it holds
    # (what a slowly growing variance estimate does); after creep_passes calls it is content with what there is. The run
    # may only stop then - however many passes that takes (own stream: the other draws are unchanged)
    rc = sub_rng(seed, "mlmc.creep")
    if (variant == "adaptive" and not sc.get("misconfigured") and not sc["controls"] and not sc.get("alloc_mode")
            and not sc.get("big_level") and rc.random() < 0.05):
        sc["alloc_mode"] = "creep"
        sc["criteria"] = "always"
        sc["warm_rmse_factor"] = None
        sc["gate_level"] = rc.randrange(0, 4)
        sc["creep_passes"] = rc.choice([30, 70, 110, 150, 250])
        sc["n0"] = min(sc["n0"], 200)
    # history of READS of a results object: the order in which the caller looks at its figures
    order = list(RESULT_FIELDS)
    if r.random() < 0.5:
        r.shuffle(order)
    sc["read_order"] = order
    return sc


def shrink_candidates(sc):
    def mod(**kw):
        c = copy.deepcopy(sc)
        c.update(kw)
        return c

    if sc["controls"]:
        yield mod(controls=[])
    if sc["nproc"] != 1:
        yield mod(nproc=1)
    for k in ("zero_var_levels", "zero_mean_levels", "heavy_levels"):
        if k in sc["law"]:
            c = mod()
            c["law"].pop(k)
            yield c
    for smaller in (1, 2, 3, 5, 10):
        if smaller < sc["n0"]:
            yield mod(n0=smaller)
    if sc["maximum_level"] > sc["initial_level"]:
        yield mod(maximum_level=sc["maximum_level"] - 1)
    if sc["initial_level"] > (2 if sc["criteria"] == "giles" else 0) and not sc.get("misconfigured"):
        yield mod(initial_level=sc["initial_level"] - 1, maximum_level=max(sc["maximum_level"] - 1, sc["initial_level"] - 1))
    if sc["rmse"] < sc["law"]["sd0"]:
        yield mod(rmse=min(sc["law"]["sd0"], sc["rmse"] * 2.5))
    if sc["rates"] is None:
        a, b, g = sc["law"]["alpha"], sc["law"]["beta"], max(sc["law"]["gamma"], 0.5)
        if a >= 0.5 * min(b, g):
            yield mod(rates=[a, b, g])
    if sc["notional"] != 1.0:
        yield mod(notional=1.0)
    if sc["df"] != 1.0:
        yield mod(df=1.0)
    if sc["payoff"]["kind"] != "forward":
        yield mod(payoff={"kind": "forward", "strike": 0.0})
    if sc["law"]["mean0"] != 0.0:
        c = mod()
        c["law"]["mean0"] = 0.0
        yield c


def _ref_payoff(kind, strike, s):
    if kind == "call":
        return max(s - strike, 0.0)
    if kind == "put":
        return max(strike - s, 0.0)
    return s - strike


def _mk_payoff(kind, strike):
    from rpylib.product.payoff import Vanilla, PayoffType, Forward

    if kind == "call":
        return Vanilla(strike=strike, payoff_type=PayoffType.CALL)
    if kind == "put":
        return Vanilla(strike=strike, payoff_type=PayoffType.PUT)
    return Forward(strike=strike)


def run(wd, sc, cap=60000):
    """returns the record: dict(stats, error, ledger, control, passes=[snapshots], sc, aborted)"""
    from rpylib.montecarlo.configuration import ConfigurationMultiLevel, ConvergenceRates
    from rpylib.montecarlo.multilevel.criteria import ConvergenceCriteria, compute_mc_paths_giles, criteria_giles, \
        criteria_run_to_maximum_level
    from rpylib.montecarlo.multilevel.engine import Engine
    from rpylib.product.product import Product, ControlVariates
    from rpylib.product.underlying import Spot

    if sc.get("big_level"):
        cap = max(cap, 3 * sc["n0"] * (sc["maximum_level"] + 1))
        wd.probes["mlmc.very_large_level"] += 1
    stubs.prepare_stub_world(wd, cap=cap)
    rec = {"sc": sc, "error": None, "aborted": None, "passes": [], "stats": None, "harness": None}
    maximum_level = sc["maximum_level"]

    # ---- recorders around the (real) criteria callables: public constructor ConvergenceCriteria --------
    phase = {"warm": False, "led0": 0}

    def scripted_gate_allocation(ns):
        """call 1: one level is sent to n* in [99k, 100k); call 2: that level is asked for n* + k; then: as simulated"""
        counts = [sum(1 for e in wd.stub_ledger[phase["led0"]:] if e["level"] == lvl) for lvl in range(len(ns))]
        out = np.array(counts, dtype=np.asarray(ns).dtype)
        lvl = sc["gate_level"] % len(ns)
        state["gate_calls"] = state.get("gate_calls", 0) + 1
        if state["gate_calls"] == 1:
            k = max(sc["gate_k"], counts[lvl] // 99 + 1)
            state["gate_k"] = k
            out[lvl] = 99 * k + min(k - 1, sc["gate_j"])
        elif state["gate_calls"] == 2 and counts[lvl] == 99 * state["gate_k"] + min(state["gate_k"] - 1, sc["gate_j"]):
            out[lvl] = counts[lvl] + state["gate_k"]
            wd.probes["mlmc.gate_boundary_probed"] += 1
            wd.faults["alloc.boundary_targeted"] += 1
        return out

    def scripted_creep_allocation(ns):
        counts = [sum(1 for e in wd.stub_ledger[phase["led0"]:] if e["level"] == lvl) for lvl in range(len(ns))]
        out = np.array(counts, dtype=np.asarray(ns).dtype)
        lvl = sc["gate_level"] % len(ns)
        state["creep_calls"] = state.get("creep_calls", 0) + 1
        if state["creep_calls"] <= sc["creep_passes"]:
            out[lvl] = counts[lvl] + counts[lvl] // 100 + 1
            if state["creep_calls"] == sc["creep_passes"]:
                wd.probes["mlmc.long_creeping_history"] += 1
                wd.faults["alloc.creeping"] += 1
        return out

    def rec_alloc(rmse, vl, cl):
        ns = compute_mc_paths_giles(rmse, vl, cl)
        if phase["warm"]:
            return ns
        if sc.get("alloc_mode") == "gate_boundary":
            ns = scripted_gate_allocation(ns)
        elif sc.get("alloc_mode") == "creep":
            ns = scripted_creep_allocation(ns)
        wd.control.append(("alloc", float(rmse), np.array(vl, dtype=float).tolist(), np.array(cl, dtype=float).tolist(),
                           np.array(ns).tolist()))
        return ns

    crit_kind = sc["criteria"]
    state = {"calls": 0}

    def rec_criteria(alpha, ml, rmse):
        state["calls"] += 1
        if crit_kind == "giles":
            res = bool(criteria_giles(alpha, ml, rmse))
        elif crit_kind == "never" or crit_kind == "run_to_max":
            res = bool(criteria_run_to_maximum_level(alpha, ml, rmse))
        elif crit_kind == "always":
            res = True
        else:
            res = state["calls"] > sc["after_k"]
        if not phase["warm"]:
            wd.control.append(("criteria", float(alpha), np.array(ml, dtype=float).tolist(), float(rmse), res))
        return res

    criteria = ConvergenceCriteria(criteria=rec_criteria, compute_mc_paths=rec_alloc)
    rates = ConvergenceRates(*sc["rates"]) if sc["rates"] else ConvergenceRates()
    product = Product(payoff_underlying=Spot(), payoff=_mk_payoff(sc["payoff"]["kind"], sc["payoff"]["strike"]),
                      maturity=sc["maturity"], notional=sc["notional"])
    cv = None
    if sc["controls"]:
        cvp = [Product(payoff_underlying=Spot(), payoff=_mk_payoff(c["kind"], c["strike"]), maturity=sc["maturity"],
                       notional=c["notional"]) for c in sc["controls"]]
        cv = ControlVariates(cvp, [c["price"] for c in sc["controls"]])
    coupling = stubs.ScriptedCoupling(sc["law"], x0=sc["x0"], maturity=sc["maturity"], df_value=sc["df"])

    # ---- in-run monitors ---------------------------------------------------------------------------
    def on_set_results(stats, Nl, sum_cost):
        if phase["warm"]:
            return
        snap = {"Nl": [int(x) for x in np.asarray(Nl).tolist()], "sum_cost": [float(x) for x in np.asarray(sum_cost).tolist()],
                "ledger_len": len(wd.stub_ledger) - phase["led0"], "levels": []}
        for lvl in range(len(snap["Nl"])):
            try:
                f = np.array(stats.simulation_payoff_with_fine_process(level=lvl, no_control_variates=True), dtype=float)
                c = np.array(stats.simulation_payoff_with_coarse_process(level=lvl, no_control_variates=True), dtype=float)
            except Exception as e:
                f, c = None, None
                snap["err"] = repr(e)
            snap["levels"].append((f, c))
        res = stats.mlmc_results
        try:
            snap["results"] = read_results(res, sc.get("read_order"))
            snap["results"]["cost"] = float(res.cost)
        except Exception as e:
            snap["results_err"] = repr(e)
        rec["passes"].append(snap)
        # M: a sample above the configured maximum level -> the run may never stop: abort with the verdict
        top = max((e["level"] for e in wd.stub_ledger[phase["led0"]:]), default=0)
        if top > maximum_level:
            raise VerdictAbort("level above maximum simulated")
        if len(rec["passes"]) > 400:
            raise VerdictAbort("more than 400 passes")

    wd.on_set_results = on_set_results
    try:
        cfg = ConfigurationMultiLevel(convergence_rates=rates, convergence_criteria=criteria,
                                      initial_level=sc["initial_level"], maximum_level=maximum_level,
                                      initial_mc_paths=sc["n0"], seed=sc["seed"], control_variates=cv,
                                      nb_of_processes=sc["nproc"])
        eng = Engine(cfg, coupling)
        if sc.get("warm_rmse_factor"):
            phase["warm"] = True
            try:
                if sc.get("warm_kind") == "fixed_level":
                    eng.price_with_constant_mc_paths_and_level(product)
                    wd.probes["mlmc.engine_reused_after_a_fixed_level_run"] += 1
                else:
                    eng.price(product, sc["rmse"] * sc["warm_rmse_factor"])
                wd.probes["mlmc.engine_reused_after_a_tighter_run"] += 1
                wd.faults["history.engine_reused"] += 1
            except HarnessError as e:
                # the tighter warm-up run alone exhausted the world's sample bound: no verdict from this world
                rec["warmup_bound"] = "warm-up run: " + str(e)
                raise
            finally:
                phase["warm"] = False
                state["calls"] = 0
                del wd.control[:]
                phase["led0"] = len(wd.stub_ledger)
                wd.stub_cap = wd.stub_serial + cap  # the main run gets the whole sample bound of a world
        if sc["variant"] == "fixed":
            rec["stats"] = eng.price_with_constant_mc_paths_and_level(product)
        else:
            rec["stats"] = eng.price(product, sc["rmse"])
    except VerdictAbort as e:
        rec["aborted"] = str(e)
    except HarnessError as e:
        rec["harness"] = str(e)
    except Exception as e:
        import traceback

        rec["error"] = {"kind": type(e).__name__, "msg": str(e)[:200],
                        "where": traceback.extract_tb(e.__traceback__)[-1].name}
    finally:
        wd.on_set_results = None
    rec["ledger"] = wd.stub_ledger[phase["led0"]:]
    rec["control"] = wd.control
    return rec


def level_reference(sc, ledger, level):
    """expected (fine, coarse) stored payoffs of the ledger samples of one level, in ledger order"""
    df, notional, x0 = sc["df"], sc["notional"], sc["x0"]
    kind, strike = sc["payoff"]["kind"], sc["payoff"]["strike"]
    f, c = [], []
    for e in ledger:
        if e["level"] != level:
            continue
        f.append(notional * _ref_payoff(kind, strike, x0 + e["fine"]) * df)
        c.append(0.0 if e["coarse"] is None else notional * _ref_payoff(kind, strike, x0 + e["coarse"]) * df)
    return np.array(f, dtype=float), np.array(c, dtype=float)


def control_reference(sc, ledger, level):
    """expected control-variate samples (n, ncv) fine and coarse for one level"""
    df, x0 = sc["df"], sc["x0"]
    xf, xc = [], []
    for e in ledger:
        if e["level"] != level:
            continue
        xf.append([c["notional"] * _ref_payoff(c["kind"], c["strike"], x0 + e["fine"]) * df for c in sc["controls"]])
        xc.append([0.0 if e["coarse"] is None else c["notional"] * _ref_payoff(c["kind"], c["strike"], x0 + e["coarse"]) * df
                   for c in sc["controls"]])
    return np.array(xf, dtype=float), np.array(xc, dtype=float)
