"""C02 - every state sampler realises the target law, independent of call history.

Workload: samplers built through the public factory (``MarkovChainProcess(...).sampling``) for small chains and every
1-d method the factory accepts. A seeded operation sequence acts on a growing family of copies of the sampler: single
draws, batch ``sample(size)``, snapshot/restore by the pool's pickler (what every pool task does) and by ``deepcopy``
(what every multilevel level does), a newly constructed sampler; the uniforms are fed through the RNG seam from a small
pool (repeats are frequent; includes 0, 1-2^-53 and values next to cumulative-probability change points); the
``knob.small_cache`` fault shrinks the inversion sampler's memo so that its miss path runs.
Oracles: H same uniform => same state on every copy after every history; V never the origin / outside the grid / a
zero-mass state; X the sampler consumes exactly the uniforms it was handed; Law (sweep): lattice of M uniforms, state
frequencies within (K+1)*2/M of the chain's own probabilities.
"""
import copy
import hashlib

import numpy as np

from simkit import simpool
from simkit.world import sub_rng, HarnessError
from . import builders as B

ID = "C02"
RULE = ("one world per seed: chain (7 models x uniform/fixed/geometric/probability-step small grids) x sampling method (bst, huffman, "
        "inversion, adapted1d; alias/table attempted: they raise under numpy 2 and are counted as probes), 40-120 "
        "operations (draw / batch / pickle round trip / deepcopy / fresh sampler / sampler of another model on the same grid) on up to 6 copies with uniforms from a "
        "14-value pool, optional small-memo knob, then a lattice sweep. non-trivial = >=1 snapshot operation followed by "
        "a draw of an already seen uniform; distinct = hash(model, grid, method, op kinds sequence)")
REAL = ["rpylib.process.markovchain.markovchainlevycopula (constructor), rpylib.model.levycopulamodel (mass)",
        "rpylib.distribution.samplingfactory", "rpylib.distribution.variate.*", "rpylib.distribution.pairing",
        "rpylib.process.markovchain.markovchain (constructor)", "grids, models",
        "multiprocess.reduction.ForkingPickler for the snapshot operation"]
STUB = ["uniforms scripted at the RNG seam (numpy uniform / random.getrandbits)", "gmpy2.qdiv, tqdm"]
ASSUMPTIONS = ["target probabilities = the chain's own rate vector / intensity (C01 trusted)",
               "law resolution: a state's frequency is decided to 2(K+1)/M only (M = 2^16 quick, 2^19 thorough)",
               "n-d samplers: 2-d and 3-d Levy-copula chains on small fixed grids (Clayton / independent copulas, "
               "finite-variation margins); their law is decided to 2(K+1)/2^14"]
TIERS = {
    "quick": {"worlds": 2000, "wall": 520, "shrink_budget": 60, "sweep": 1 << 16,
              "required_probes": ["c02.ops_done", "c02.repeat_after_pickle", "c02.repeat_after_deepcopy",
                                  "c02.small_cache_world", "c02.sweep_done", "c02.fresh_compared", "c02.nd_ops_done",
                                  "c02.nd_sweep_done", "c02.nd_repeat_after_copy", "c02.cost_reset_between_draws"]},
    "thorough": {"worlds": 6000, "wall": 2900, "shrink_budget": 150, "sweep": 1 << 19,
                 "required_probes": ["c02.ops_done", "c02.repeat_after_pickle", "c02.repeat_after_deepcopy",
                                     "c02.small_cache_world", "c02.sweep_done", "c02.fresh_compared"]},
}


def generate(seed, tier="quick"):
    sc = _generate(seed, tier)
    # history: the sampler's COST counter is reset between draws (what both engines do to a process before every pass or
    # level); that is book-keeping and must leave the map uniform -> state alone (own stream: the other draws are unchanged)
    rr = sub_rng(seed, "c02.reset_cost")
    pr = sc["process"]
    if pr["kind"] == "copula" and pr["method"] == "inversion" and len(pr["margins"]) == 2 and rr.random() < 0.4:
        # the library's default grid of a copula model (bounds from the default truncation probability): long, UNBALANCED
        # axes - the state enumeration of the inversion sampler then skips indices that fall outside the grid
        pr["grid"] = {"kind": "trunc", "h": rr.choice([0.25, 0.2]), "tp": 0.99999}
        # building such a chain costs seconds: at most three newly constructed samplers per world
        keep, seen_fresh = [], 0
        for op in sc["ops"]:
            seen_fresh += op[0] == "fresh"
            if op[0] != "fresh" or seen_fresh <= 3:
                keep.append(op)
        sc["ops"] = keep
        if rr.random() < 0.6:
            pr["margins"] = rr.choice([["cgmy11_a", "cgmy11_b"], ["cgmy11_b", "cgmy11_a"], ["cgmy11_a", "hem"]])
            if pr["copula"]["kind"] == "independent":
                pr["copula"] = {"kind": "clayton", "theta": 0.7, "eta": 0.3}
    unbalanced = pr["kind"] == "copula" and any(m in pr["margins"] for m in ("cgmy11_a", "cgmy11_b"))
    if rr.random() < 0.5 or unbalanced:
        for _ in range(rr.choice([4, 8, 16] if unbalanced else [1, 2, 4, 8, 16])):
            sc["ops"].insert(rr.randrange(1, len(sc["ops"]) + 1), ["reset_cost", rr.randrange(5)])
    return sc


def _generate(seed, tier="quick"):
    r = sub_rng(seed, "c02.scenario")
    if r.random() < 0.25:
        # several dimensions: samplers of a Levy-copula chain (scenarios.c02nd)
        from . import c02nd

        proc = c02nd.credit_grid(c02nd.enlarge(c02nd.generate_process(r), r), r)
        ops, ncopies = [], 1
        for _ in range(r.choice([30, 60])):
            k = r.random()
            if k < 0.55:
                ops.append(["draw", r.randrange(ncopies), r.randrange(14)])
            elif k < 0.75:
                ops.append(["batch", r.randrange(ncopies), [r.randrange(14) for _ in range(r.choice([2, 3, 7]))]])
            elif k < 0.85 and ncopies < 5:
                ops.append(["pickle", r.randrange(ncopies)])
                ncopies += 1
            elif k < 0.95 and ncopies < 5:
                ops.append(["deepcopy", r.randrange(ncopies)])
                ncopies += 1
            else:
                ops.append(["fresh", r.randrange(14)])
        return {"world_seed": seed, "process": proc, "ops": ops,
                "small_cache": r.choice([None, None, 3, 8]) if proc["method"] == "inversion" else None,
                "useed": r.randrange(10 ** 9), "sweep": min(TIERS[tier]["sweep"], 1 << 14)}
    model = r.choice(B.CHAIN_MODELS + B.SKEWED_MODELS)
    gk = r.choice(["uniform", "fixed", "geometric", "probstep"])
    grid = {"uniform": {"kind": "uniform", "h": r.choice([0.05, 0.1, 0.08])},
            "probstep": {"kind": "probstep", "h": r.choice([0.05, 0.1]), "pstep": r.choice([0.1, 0.2, 0.3])},
            "fixed": {"kind": "fixed", "h": r.choice([0.05, 0.1]), "n": r.choice([4, 6, 10, 16])},
            "geometric": {"kind": "geometric", "h": r.choice([0.05, 0.1]), "n": r.choice([2, 3, 5, 8])}}[gk]
    method = r.choice(["bst", "huffman", "inversion", "inversion", "adapted1d", "adapted1d", "alias", "table"])
    nops = r.choice([40, 80, 120])
    ops = []
    ncopies = 1
    for _ in range(nops):
        k = r.random()
        if k < 0.55:
            ops.append(["draw", r.randrange(ncopies), r.randrange(14)])
        elif k < 0.75:
            ops.append(["batch", r.randrange(ncopies), [r.randrange(14) for _ in range(r.choice([2, 3, 7]))]])
        elif k < 0.85 and ncopies < 6:
            ops.append(["pickle", r.randrange(ncopies)])
            ncopies += 1
        elif k < 0.95 and ncopies < 6:
            ops.append(["deepcopy", r.randrange(ncopies)])
            ncopies += 1
        elif r.random() < 0.5:
            ops.append(["fresh", r.randrange(14)])
        else:
            # a sampler of ANOTHER model on the same grid specification is used in between (shared process-wide state?)
            ops.append(["foreign", r.choice([m for m in B.CHAIN_MODELS if m != model]), [r.randrange(14) for _ in range(5)]])
    # the chain of level l lives on a grid refined l times after its construction
    refinements = r.choice([0, 0, 1, 2]) if not (gk == "uniform" and grid["h"] == 0.05) else r.choice([0, 0, 1])
    return {"world_seed": seed, "process": {"kind": "chain", "model": model, "grid": grid, "method": method,
                                            "refinements": refinements},
            "ops": ops, "small_cache": r.choice([None, None, 2, 3, 8]) if method == "inversion" else None,
            "useed": r.randrange(10 ** 9), "sweep": TIERS[tier]["sweep"]}


def shrink_candidates(sc):
    def mod(**kw):
        c = copy.deepcopy(sc)
        c.update(kw)
        return c

    ops = sc["ops"]
    if sc["sweep"] > 256:
        yield mod(sweep=256)
    # drop halves, then single operations (copy indices are re-normalised)
    n = len(ops)
    for lo, hi in ((0, n // 2), (n // 2, n)):
        cand = _renorm(ops[:lo] + ops[hi:])
        if cand is not None and len(cand) < n:
            yield mod(ops=cand)
    if n <= 24:
        for i in range(n):
            cand = _renorm(ops[:i] + ops[i + 1:])
            if cand is not None:
                yield mod(ops=cand)
    if sc["small_cache"] is not None:
        yield mod(small_cache=None)
    if sc["process"]["kind"] == "copula":
        return
    if sc["process"]["grid"].get("kind") != "fixed":
        c = mod()
        c["process"]["grid"] = {"kind": "fixed", "h": 0.1, "n": 6}
        yield c
    if sc["process"]["model"] != "hem":
        c = mod()
        c["process"]["model"] = "hem"
        yield c


def _renorm(ops):
    """keep an operation list valid after deletions: copy indices must refer to existing copies"""
    out, ncopies = [], 1
    for op in ops:
        op = copy.deepcopy(op)
        if op[0] in ("draw", "batch", "pickle", "deepcopy"):
            if not isinstance(op[1], int):
                continue
            if op[1] >= ncopies:
                op[1] = op[1] % ncopies
        if op[0] in ("pickle", "deepcopy"):
            ncopies += 1
        out.append(op)
    return out


def execute(wd, sc):
    if sc["process"]["kind"] == "copula":
        from . import c02nd

        wd.probes["c02.nd_world"] += 1
        return c02nd.execute(wd, sc)
    from rpylib.distribution.samplingfactory import create_q_vector

    V, errors = [], []
    method = sc["process"]["method"]
    try:
        process = B.build_process(sc["process"])
    except Exception as e:
        wd.probes[f"c02.construction_raised.{method}"] += 1
        return {"violations": [], "errors": [{"kind": type(e).__name__, "msg": "construction: " + str(e)[:120]}],
                "info": {}, "key": None, "nontrivial": False}
    grid = process.grid
    origin = grid.origin_coordinate.value
    naxis = len(grid.axes[0])
    ax = np.asarray(grid.axes[0], dtype=float)
    # precondition (C13, not claimed here): the origin's neighbours are -h and +h
    if origin < 1 or origin > naxis - 2 or abs(ax[origin - 1] + grid.h) > 1e-12 or abs(ax[origin + 1] - grid.h) > 1e-12:
        wd.probes["c02.grid_precondition_failed"] += 1
        return {"violations": [], "errors": [{"kind": "precondition", "msg": "origin neighbours are not -h/+h"}],
                "info": {}, "key": None, "nontrivial": False}
    q = create_q_vector(process.model.levy_triplet.nu, grid)
    p = np.array(q, dtype=float) / float(process.intensity_of_jumps)
    p[origin] = 0.0
    K = naxis - 1
    cls = f"method={method}"
    # ---- pool of uniforms --------------------------------------------------------------------------
    ur = sub_rng(sc["useed"], "c02.uniforms")
    order = [i for i in range(naxis) if i != origin]
    cum = np.cumsum([p[i] for i in order])
    pool = [0.0, 1.0 - 2.0 ** -53, 2.0 ** -40, 0.5]
    for _ in range(4):
        pool.append(ur.random())
    # the point where the sampler changes from the left to the right half-axis: the total probability of a left jump, as
    # the sampler itself holds it (bit for bit) when it exposes it, else as cumulated here - and its two neighbours
    pl = getattr(process.sampling, "_proba_left_axis", None)
    try:
        pl = float(pl) if pl is not None else float(cum[origin - 1]) if origin >= 1 else None
    except Exception:
        pl = None
    if pl is not None and 0.0 < pl < 1.0:
        pool[5], pool[6], pool[7] = pl, float(np.nextafter(pl, 0.0)), float(np.nextafter(pl, 1.0))
        wd.probes["c02.left_right_change_point_in_pool"] += 1
    for _ in range(6):
        c = float(cum[ur.randrange(len(cum))])
        pool.append(min(1.0 - 2.0 ** -53, max(0.0, c + ur.choice([-1e-12, 1e-12, -1e-9, 1e-7]))))
    feed = {"us": None}

    def script(wd_, ctx, fname, cons, a, k, val):
        if feed["us"] is None:
            return val
        if fname == "np.uniform" and "Uniform.sample" in cons:
            n = int(np.asarray(val).size)
            us = feed["us"][:n]
            feed["us"] = feed["us"][n:]
            if len(us) != n:
                raise HarnessError("uniform feed exhausted")
            hi = float(k.get("high", 1.0))
            wd_.faults["rng.scripted_uniform"] += n
            return np.array(us, dtype=float) * hi
        if fname == "py.getrandbits":
            u = feed["us"][0]
            feed["us"] = feed["us"][1:]
            wd_.faults["rng.scripted_uniform"] += 1
            return min(2 ** 32 - 1, int(u * 2 ** 32))
        return val

    wd.script = script

    def add(sig, detail):
        if not any(v["sig"] == sig for v in V):
            V.append({"sig": sig, "oracle": sig.split("|")[0], "detail": detail})

    total_p = float(np.sum(p))

    def ucls(u):
        """class of the uniform: exact lower end, beyond the (rounded) total probability, or ordinary"""
        if u == 0.0:
            return "u=0-exactly"
        if u >= min(total_p, 1.0) * (1 - 4e-16):
            return "u-at-or-beyond-the-rounded-total-probability"
        return "u-interior"

    knobcls = "small-memo" if sc["small_cache"] is not None else "default-memo"

    def check_state(inc, u, where):
        inc = int(inc)
        pos = origin + inc
        if inc == 0:
            add(f"C02.V|sampler returned the origin|{ucls(u)}|{knobcls}|{cls}", {"u": u, "where": where})
        elif pos < 0 or pos >= naxis:
            add(f"C02.V|sampler returned a state outside the grid|{ucls(u)}|{knobcls}|{cls}", {"u": u, "increment": inc, "where": where})
        elif p[pos] <= 0.0:
            add(f"C02.V|sampler returned a state of probability zero|{ucls(u)}|{knobcls}|{cls}", {"u": u, "increment": inc, "where": where})

    def do_sample(sampler, us, where):
        """feed the uniforms, draw, check X (only the fed uniforms were consumed)"""
        feed["us"] = list(us)
        d0 = len(wd.draws)
        try:
            res = sampler.sample(size=len(us))
        finally:
            left = feed["us"]
            feed["us"] = None
        res = [int(x) for x in np.asarray(res).ravel()]
        extra = [d for d in wd.draws[d0:] if not (("Uniform.sample" in d[4] and d[1] == "uniform") or d[1] == "getrandbits")]
        if extra:
            ucs = {ucls(u) for u in us}
            uc = "u-at-or-beyond-the-rounded-total-probability" if "u-at-or-beyond-the-rounded-total-probability" in ucs else "u-interior"
            add(f"C02.X|sampler consumed a random variate other than the uniforms it was handed|{extra[0][1]}@{extra[0][4].split(':')[-1]}|{uc}|{knobcls}|{cls}",
                {"where": where, "draw": list(extra[0][:6]), "u": us})
        if left:
            add(f"C02.X|sampler did not consume the uniforms it was handed|{cls}", {"where": where, "left": len(left)})
        if len(res) != len(us):
            add(f"C02.X|batch sample returned a different number of states than requested|{cls}",
                {"requested": len(us), "returned": len(res)})
        return res

    samplers = [process.sampling]
    lineage = ["original"]
    if sc["small_cache"] is not None and hasattr(samplers[0], "_max_storage"):
        samplers[0]._max_storage = sc["small_cache"]
        wd.faults["knob.small_cache"] += 1
        wd.probes["c02.small_cache_world"] += 1
    table = {}  # u -> (state, where first seen)
    kinds = []
    snap_then_repeat = False
    try:
        for oi, op in enumerate(sc["ops"]):
            kind = op[0]
            kinds.append(kind[0])
            if kind in ("draw", "batch"):
                ci = op[1] % len(samplers)
                idxs = [op[2]] if kind == "draw" else op[2]
                us = [pool[i] for i in idxs]
                res = do_sample(samplers[ci], us, f"op {oi} {kind} on copy {ci} ({lineage[ci]})")
                if kind == "draw" and hasattr(samplers[ci], "sample_with_u") and ucls(us[0]) == "u-interior":
                    # the single-uniform entry point must agree with the batch call
                    try:
                        st1 = int(np.asarray(samplers[ci].sample_with_u(us[0])).ravel()[0])
                        wd.probes["c02.single_entry_point_compared"] += 1
                        if res and st1 != res[0]:
                            add(f"C02.E|single-uniform entry point and batch call disagree for the same uniform|{cls}",
                                {"u": us[0], "batch": res[0], "single": st1, "op": oi})
                    except HarnessError:
                        raise
                    except Exception as e:
                        wd.probes["c02.single_entry_point_raised"] += 1
                for u, st in zip(us, res):
                    check_state(st, u, f"op {oi}")
                    if u in table:
                        if lineage[ci] != "original":
                            snap_then_repeat = True
                            wd.probes["c02.repeat_after_pickle" if "pickle" in lineage[ci] else "c02.repeat_after_deepcopy"] += 1
                        if table[u][0] != st:
                            hist = "same-object" if table[u][1] == ci else f"copy-by-{lineage[ci].split('<')[0]}" if lineage[ci] != "original" else "original-after-copies"
                            knob = "small-memo" if sc["small_cache"] is not None else "default-memo"
                            add(f"C02.H|same uniform gave a different state after another history|{ucls(u)}|{knob}|{cls}",
                                {"u": u, "first": table[u][0], "now": st, "op": oi, "first_seen_on_copy": table[u][1], "copy": ci,
                                 "lineage": lineage[ci]})
                    else:
                        table[u] = (st, ci)
            elif kind == "reset_cost":
                ci = op[1] % len(samplers)
                if hasattr(samplers[ci], "reset_sampling_cost"):
                    samplers[ci].reset_sampling_cost()
                    wd.probes["c02.cost_reset_between_draws"] += 1
                    wd.faults["history.cost_reset"] += 1
            elif kind == "pickle":
                ci = op[1] % len(samplers)
                samplers.append(simpool._loads(simpool._dumps(samplers[ci])))
                lineage.append("pickle<" + lineage[ci])
                wd.faults["snapshot.restore.pickle"] += 1
            elif kind == "deepcopy":
                ci = op[1] % len(samplers)
                samplers.append(copy.deepcopy(samplers[ci]))
                lineage.append("deepcopy<" + lineage[ci])
                wd.faults["snapshot.restore.deepcopy"] += 1
            elif kind == "foreign":
                spec2 = dict(sc["process"], model=op[1])
                try:
                    other = B.build_process(spec2).sampling
                    do_sample(other, [pool[i] for i in op[2]] + [0.3, 0.6, 0.9, 0.97, 0.03], f"op {oi} foreign sampler")
                    wd.probes["c02.foreign_sampler_used"] += 1
                    wd.faults["history.foreign_sampler"] += 1
                except HarnessError:
                    raise
                except Exception:
                    wd.probes["c02.foreign_sampler_raised"] += 1
            elif kind == "fresh":
                u = pool[op[1]]
                fresh = B.build_process(sc["process"]).sampling
                st = do_sample(fresh, [u], f"op {oi} fresh sampler")[0]
                check_state(st, u, f"op {oi} fresh")
                wd.probes["c02.fresh_compared"] += 1
                if u in table and table[u][0] != st:
                    knob = "small-memo" if sc["small_cache"] is not None else "default-memo"
                    add(f"C02.H|a newly constructed sampler gives another state for the same uniform|{ucls(u)}|{knob}|{cls}",
                        {"u": u, "used_sampler": table[u][0], "fresh_sampler": st, "op": oi})
                elif u not in table:
                    table[u] = (st, -1)
        wd.probes["c02.ops_done"] += 1
    except HarnessError:
        wd.script = None
        raise
    except Exception as e:
        errors.append({"kind": type(e).__name__, "msg": f"op {len(kinds)}: " + str(e)[:140]})
        wd.probes[f"c02.sampling_raised.{method}"] += 1
    # ---- law: lattice sweep on a fresh sampler ------------------------------------------------------------
    M = int(sc["sweep"])
    if not errors and M > 0 and method != "table":
        try:
            fresh = B.build_process(sc["process"]).sampling
            counts = np.zeros(naxis, dtype=np.int64)
            bad_state = False
            step = 8192
            for start in range(0, M, step):
                n = min(step, M - start)
                us = (np.arange(start, start + n) + 0.5) / M
                res = do_sample(fresh, us.tolist(), "lattice sweep")
                arr = np.asarray(res, dtype=np.int64) + origin
                if np.any(arr < 0) or np.any(arr >= naxis):
                    bad_state = True
                    add(f"C02.V|sampler returned a state outside the grid|{cls}", {"where": "lattice sweep"})
                    break
                counts += np.bincount(arr, minlength=naxis)
            if not bad_state:
                wd.probes["c02.sweep_done"] += 1
                freq = counts / float(M)
                tol = 2.0 * (K + 1) / M + 1e-12
                err = np.abs(freq - p)
                worst = int(np.argmax(err))
                if counts[origin] > 0:
                    add(f"C02.V|sampler returned the origin|{cls}", {"where": "lattice sweep", "count": int(counts[origin])})
                zero_hit = [i for i in range(naxis) if p[i] <= 0.0 and counts[i] > 0 and i != origin]
                if zero_hit:
                    add(f"C02.V|sampler returned a state of probability zero|{cls}", {"where": "lattice sweep", "states": zero_hit[:5]})
                if err[worst] > tol:
                    side = "end-state" if worst in (0, naxis - 1) else "interior-state"
                    add(f"C02.law|state frequency over the uniform lattice differs from the target probability|{side}|{cls}",
                        {"state_index": worst, "frequency": float(freq[worst]), "probability": float(p[worst]),
                         "tolerance": tol, "M": M, "K": K, "sum_p": float(p.sum())})
        except HarnessError:
            wd.script = None
            raise
        except Exception as e:
            errors.append({"kind": type(e).__name__, "msg": "sweep: " + str(e)[:140]})
            wd.probes[f"c02.sampling_raised.{method}"] += 1
    wd.script = None
    key = hashlib.sha256(repr((sc["process"], sc["small_cache"], "".join(kinds))).encode()).hexdigest()[:16]
    return {"violations": V, "errors": errors, "info": {"K": K, "ops": len(kinds), "copies": len(samplers)}, "key": key,
            "nontrivial": snap_then_repeat}


def summarise(sc, o):
    return {"scenario": {"process": sc["process"], "small_cache": sc["small_cache"], "ops_head": sc["ops"][:8],
                         "n_ops": len(sc["ops"]), "sweep": sc["sweep"]},
            "violations": [v["sig"] for v in o["violations"]], "errors": o.get("errors", [])[:2], "info": o.get("info")}
