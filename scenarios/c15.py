"""C15 - simulated paths are running sums on the product dates within the time-step cap.

Workload: ``simulate_one_path()`` / ``simulate_one_path_with_coupling()`` of the REAL 1-d simulators (direct Levy
process, Markov-chain process, coupled Markov chain at level >= 1) after the engines' own initialisation /
pre-computation sequence, in the three simulation modes (fixed dates 2..6, jump times, maximum step eps). The variate
stream is the input and sits behind the RNG seam: Poisson counts and jump-time uniforms are SCRIPTED (zero-jump paths,
bursts, all jumps in one interval, gaps around eps, long tail gap), everything else is recorded. The jump sizes / grid
states actually used are recorded where they enter the path assembly.
Oracle: executable reference built from the recorded counts, times, sizes and normals only.
"""
import copy
import hashlib

import numpy as np

from simkit import rngseam
from simkit.world import sub_rng, HarnessError
from . import builders as B

ID = "C15"
RULE = ("one world per seed: simulator (direct Levy HEM/Merton, chain on a small grid with 4 sampling methods, coupled "
        "chain at level 1-2), mode (fixed dates 2..6 / jump times / maximum step eps from far below to above the "
        "maturity), 4-12 paths with scripted Poisson counts (0, 1, small, burst) and jump-time uniforms (clustered, "
        "spread, early, late), recorded normals and jump sizes. non-trivial = path with >=1 jump or >=3 dates; distinct "
        "= hash(simulator, mode, dates, counts pattern, eps class)")
REAL = ["rpylib.process.levyprocess (all Simulation classes)", "rpylib.process.markovchain.markovchain",
        "rpylib.process.coupling.{couplingmarkovchain,helper}", "rpylib.montecarlo.path.StochasticJumpPath",
        "samplers, grids, models, products"]
STUB = ["Poisson counts and jump-time uniforms scripted at the RNG seam (the real generator is still advanced)",
        "gmpy2.qdiv, tqdm"]
ASSUMPTIONS = ["grid states (C13) and sampler outputs (C02) are taken as given: jump sizes are read from the recorded state "
               "increments and the grid", "float comparison rtol 1e-11 (sums may associate differently)",
               "copula simulators: 2-d chain and its coupled version at level 1, single interval (the copula fixed-date "
               "projector raises for several dates)"]
TIERS = {
    "quick": {"worlds": 6000, "wall": 500, "shrink_budget": 60,
              "required_probes": ["c15.path_checked", "c15.zero_jump_path", "c15.multi_date", "c15.maxstep_mode",
                                  "c15.coupled_path", "c15.gap_gt_eps", "c15.nd_path_checked", "c15.step_cap_changes_between_levels",
                                  "c15.jumps_in_several_date_intervals_on_jump_times"]},
    "thorough": {"worlds": 200000, "wall": 2900, "shrink_budget": 150,
                 "required_probes": ["c15.path_checked", "c15.zero_jump_path", "c15.multi_date", "c15.maxstep_mode",
                                     "c15.coupled_path", "c15.gap_gt_eps", "c15.tail_gap_gt_eps", "c15.burst", "c15.step_cap_changes_between_levels"]},
}

_installed = False


def _install_probes():
    """class-level recorders (transparent without an active world)"""
    global _installed
    if _installed:
        return
    import rpylib.process.markovchain.markovchain as mc
    import rpylib.process.coupling.couplingmarkovchain as cmc

    orig = mc.MCSimulation.helper_simulate_markov_chain

    def helper(grid, sampling, all_nb_of_jumps):
        values, incs = orig(grid, sampling, all_nb_of_jumps)
        wd = rngseam.ACTIVE
        if wd is not None and getattr(wd, "c15", None) is not None:
            wd.c15["chain"].append(([int(n) for n in all_nb_of_jumps], [[int(i) for i in s] for s in incs]))
        return values, incs

    mc.MCSimulation.helper_simulate_markov_chain = staticmethod(helper)

    orig_slice = cmc.CouplingSimulation.coupling_states_for_a_slice

    def coupling_states_for_a_slice(self, slice_fine_states):
        out = orig_slice(self, slice_fine_states)
        wd = rngseam.ACTIVE
        if wd is not None and getattr(wd, "c15", None) is not None:
            wd.c15["coarse"].append([float(x) for x in np.asarray(out, dtype=float).ravel()])
        return out

    cmc.CouplingSimulation.coupling_states_for_a_slice = coupling_states_for_a_slice

    # the coarse increment chosen for EACH fine jump (the slice function above only cumulates them)
    orig_state = cmc.CouplingSimulation.coupling_state

    def coupling_state(self, increment):
        out = orig_state(self, increment)
        wd = rngseam.ACTIVE
        if wd is not None and getattr(wd, "c15", None) is not None:
            wd.c15.setdefault("coarse_jumps", []).append(float(out))
        return out

    cmc.CouplingSimulation.coupling_state = coupling_state
    _installed = True


def generate(seed, tier="quick"):
    r = sub_rng(seed, "c15.scenario")
    if r.random() < 0.2:
        # 2-d Levy-copula chain and its coupled version (scenarios.c15nd)
        from . import c15nd

        proc = c15nd.generate_process(r)
        mode = r.choice(["fixed", "jump", "maxstep", "maxstep"])
        T = r.choice([0.5, 1.0, 2.0])
        npaths = r.choice([4, 6])
        counts = [[r.choice([0, 0, 1, 2, 3, 6, 12])] for _ in range(npaths)]
        return {"world_seed": seed, "process": proc, "mode": mode, "maturity": T, "dates": 2, "npaths": npaths,
                "counts": counts, "eps": T * r.choice([0.02, 0.1, 0.3, 0.5, 0.9, 1.5]) if mode == "maxstep" else None,
                "time_style": [r.choice(["spread", "early", "late", "cluster"]) for _ in range(npaths)],
                "level": r.choice([1, 1, 2, 3]) if proc["kind"] == "copula_coupling" else 0, "useed": r.randrange(10 ** 9),
                "eps_decay": r.choice([1.0, 0.7, 0.5]), "reinit": r.random() < 0.5}
    kind = r.choice(["levy", "chain", "chain", "coupling", "coupling"])
    if kind == "levy":
        proc = {"kind": "levy", "model": r.choice(B.DIRECT_MODELS)}
    else:
        model = r.choice(["hem", "hem_lowint", "hem_nosigma", "merton", "cgmy02", "cgmy12", "vg"])
        gk = r.choice(["uniform", "fixed", "geometric"])
        grid = {"uniform": {"kind": "uniform", "h": r.choice([0.05, 0.1])},
                "fixed": {"kind": "fixed", "h": r.choice([0.05, 0.1]), "n": r.choice([6, 10])},
                "geometric": {"kind": "geometric", "h": r.choice([0.05, 0.1]), "n": r.choice([3, 5])}}[gk]
        proc = {"kind": kind, "model": model, "grid": grid,
                "method": r.choice(B.COUPLING_METHODS if kind == "coupling" else B.WORKING_METHODS)}
    mode = r.choice(["fixed", "fixed", "jump", "maxstep", "maxstep"])
    T = r.choice([0.5, 1.0, 2.0])
    # several product dates also in the jump-time and maximum-step modes: the simulators draw the jumps date interval by
    # date interval and must carry the running sum across the dates
    dates = r.choice([2, 3, 4, 6]) if mode == "fixed" else r.choice([2, 2, 3, 4])
    npaths = r.choice([4, 6, 12])
    nint = dates - 1
    counts = []
    for _ in range(npaths):
        style = r.choice(["zero", "one", "small", "small", "burst", "one_interval"])
        if kind == "levy" and mode == "fixed" and r.random() < 0.02:
            style = "huge"  # more jumps in one date interval than a 16-bit counter holds
        if style == "zero":
            row = [0] * nint
        elif style == "one":
            row = [0] * nint
            row[r.randrange(nint)] = 1
        elif style == "small":
            row = [r.choice([0, 1, 2, 3]) for _ in range(nint)]
        elif style == "huge":
            row = [0] * nint
            row[r.randrange(nint)] = r.choice([65536, 70001])
        elif style == "burst":
            row = [r.choice([0, 5, 12, 25]) for _ in range(nint)]
        else:
            row = [0] * nint
            row[r.randrange(nint)] = r.choice([2, 4, 7])
        counts.append(row)
    eps = None
    if mode == "maxstep":
        eps = T * r.choice([0.003, 0.02, 0.1, 0.3, 0.5, 0.9, 1.0, 1.5])
    tstyle = [r.choice(["spread", "early", "late", "cluster"]) for _ in range(npaths)]
    return {"world_seed": seed, "process": proc, "mode": mode, "maturity": T, "dates": dates, "npaths": npaths,
            "counts": counts, "eps": eps, "time_style": tstyle, "level": r.choice([1, 1, 2, 3]) if kind == "coupling" else 0,
            "useed": r.randrange(10 ** 9), "eps_decay": r.choice([1.0, 0.7, 0.5]), "reinit": r.random() < 0.5,
            # the two engines' call sequences around a level transition: the adaptive loop deep-copies the previous level's
            # object, refines it and pre-computes again before every pass; the fixed-level run refines ONE object level
            # after level and simulates right after next_level (which pre-computed on its own)
            "sequence": r.choice(["adaptive", "adaptive", "fixed_level"]),
            # history of the PRODUCT object: it was used once with another maturity (a term-structure loop moves the
            # public attribute and prices again)
            "earlier_maturity": (T * r.choice([0.5, 2.0]) if (kind != "coupling" and r.random() < 0.12) else None),
            # a SECOND simulator of the same class, with another step cap and another maturity, is prepared after this one
            # and before this one simulates (two processes alive at once, e.g. two products priced side by side)
            "decoy": (mode == "maxstep" and r.random() < 0.3)}


def shrink_candidates(sc):
    import copy

    def mod(**kw):
        c = copy.deepcopy(sc)
        c.update(kw)
        return c

    if sc["npaths"] > 1:
        for i in range(sc["npaths"]):
            c = mod(npaths=1, counts=[sc["counts"][i]], time_style=[sc["time_style"][i]])
            yield c
    for i, row in enumerate(sc["counts"]):
        if sum(row) > 1:
            c = mod()
            c["counts"][i] = [min(1, x) for x in row]
            yield c
        if sum(row) > 0:
            c = mod()
            c["counts"][i] = [0] * len(row)
            yield c
    if sc["dates"] > 3:
        c = mod(dates=3)
        c["counts"] = [row[:2] for row in sc["counts"]]
        yield c
    if sc["process"]["kind"] in ("copula", "copula_coupling"):
        return
    if sc["level"] > 1:
        yield mod(level=1)
    if sc["process"].get("grid", {}).get("kind") not in (None, "fixed"):
        c = mod()
        c["process"]["grid"] = {"kind": "fixed", "h": 0.1, "n": 6}
        yield c
    if sc["process"]["model"] != "hem":
        c = mod()
        c["process"]["model"] = "hem"
        yield c
    if sc["process"].get("method") not in (None, "adapted1d"):
        c = mod()
        c["process"]["method"] = "adapted1d"
        yield c


def _close(a, b, scale=1.0):
    a, b = np.asarray(a, dtype=float), np.asarray(b, dtype=float)
    return a.shape == b.shape and np.allclose(a, b, rtol=1e-11, atol=1e-12 * (1.0 + scale))


def _transport(add, path, cls):
    """the path that reaches the engine is the path that was simulated: a pool worker ships it through the pool's pickler,
    the engines copy path objects - times, diffusion and jump components must come out as they went in"""
    from simkit import simpool

    ref = (np.array(path.times(), dtype=float), np.array(path.diffusion_path, dtype=float), np.array(path.jump_path, dtype=float))
    for how, make in (("pool-pickler", lambda: simpool._loads(simpool._dumps(path))), ("deepcopy", lambda: copy.deepcopy(path)),
                      ("copy", lambda: copy.copy(path))):
        try:
            q = make()
            got = (np.array(q.times(), dtype=float), np.array(q.diffusion_path, dtype=float), np.array(q.jump_path, dtype=float))
        except Exception as e:
            add(f"C15.transport|a simulated path cannot be shipped / copied|{how}|{type(e).__name__}|{cls}", {"error": str(e)[:120]})
            continue
        names = ("times", "diffusion component", "jump component")
        bad = [n for n, a, b in zip(names, ref, got) if a.shape != b.shape or not np.array_equal(a, b)]
        if bad:
            swapped = (ref[1].shape == got[2].shape and np.array_equal(ref[1], got[2]) and np.array_equal(ref[2], got[1]))
            add(f"C15.transport|a path shipped through the {how} is not the path that was simulated|{'diffusion-and-jump-components-exchanged' if swapped else 'other'}|{cls}",
                {"differs": bad})


def execute(wd, sc):
    if sc["process"]["kind"] in ("copula", "copula_coupling"):
        from . import c15nd

        return c15nd.execute(wd, sc)
    _install_probes()
    V, errors = [], []
    wd.record_values = True
    wd.c15 = {"chain": [], "coarse": [], "sizes": []}
    T, mode, npaths = sc["maturity"], sc["mode"], sc["npaths"]
    kind = sc["process"]["kind"]
    ur = sub_rng(sc["useed"], "c15.uniforms")
    phase = {"name": "setup", "poisson_idx": 0, "path": None}
    nint = sc["dates"] - 1

    def scripted_uniforms(n, style):
        if n == 0:
            return np.zeros(0)
        if style == "early":
            u = [ur.uniform(1e-9, 0.05) for _ in range(n)]
        elif style == "late":
            u = [ur.uniform(0.0, 0.2) ** 2 * 0.5 + 1e-9 for _ in range(n)] if ur.random() < 0.5 else \
                [ur.uniform(0.02, 0.3) for _ in range(n)]
        elif style == "cluster":
            c = ur.uniform(0.05, 0.95)
            u = [min(1 - 1e-9, max(1e-9, c + ur.uniform(-1e-4, 1e-4))) for _ in range(n)]
        else:
            u = [ur.uniform(1e-9, 1 - 1e-9) for _ in range(n)]
        return np.array(u)

    def script(wd_, ctx, fname, cons, a, k, val):
        if "PoissonNumpy.sample" in cons:
            if phase["name"] == "precompute":
                idx = phase["poisson_idx"]
                phase["poisson_idx"] += 1
                kk, pp = divmod(idx, phase["precompute_paths"])
                if phase["precompute_paths"] == npaths and kk < nint:
                    wd_.faults["rng.scripted_poisson_count"] += 1
                    return np.array([sc["counts"][pp][kk]])
                return np.array([0])
            if phase["name"] == "path":
                kk = phase["poisson_idx"]
                phase["poisson_idx"] += 1
                row = sc["counts"][phase["path"]]
                wd_.faults["rng.scripted_poisson_count"] += 1
                return np.array([row[kk] if kk < len(row) else 0])
            return val
        if "jump_times_from_nb_of_jumps" in cons and phase["name"] == "path":
            n = int(np.asarray(val).size)
            wd_.faults["rng.scripted_jump_times"] += 1
            return scripted_uniforms(n, sc["time_style"][phase["path"]])
        return val

    wd.script = script
    try:
        process = B.build_process(sc["process"])
        prod_spec = {"kind": "call", "maturity": T, "strike": 100.0, "dates": sc["dates"]}
        if mode == "jump":
            prod_spec = {"kind": "cds", "maturity": T, "dates": sc["dates"]}
        model_for_product = process.model
        product = B.build_product(prod_spec, model_for_product)
        eps = sc["eps"] if mode == "maxstep" else None
        sizes = wd.c15["sizes"]
        if kind == "levy":
            m = process.model
            orig_ji = m.jump_increment

            def ji(n):
                z = orig_ji(n)
                sizes.append([float(x) for x in np.atleast_1d(z)])
                return z

            m.jump_increment = ji
        phase["name"] = "setup"
        if sc.get("earlier_maturity"):
            product.maturity = sc["earlier_maturity"]
            process.initialisation(product, max_step_epsilon=eps)
            process.pre_computation(1, product)
            product.maturity = T
            wd.probes["c15.product_used_with_another_maturity_before"] += 1
        process.initialisation(product, max_step_epsilon=eps)
        phase.update(name="precompute", poisson_idx=0, precompute_paths=npaths)
        process.pre_computation(npaths, product)
        for lvl in range(sc["level"]):
            # the engines' history: the level-l object is a deep copy of the level-(l-1) object, (re-)initialised and
            # refined with the step cap of ITS level (the cap shrinks with h^BG from level to level)
            if lvl > 0:
                if sc.get("sequence", "adaptive") == "adaptive":
                    process = copy.deepcopy(process)
                if eps is not None:
                    eps = eps * sc.get("eps_decay", 1.0)
                    if sc.get("eps_decay", 1.0) != 1.0:
                        wd.probes["c15.step_cap_changes_between_levels"] += 1
                if sc.get("reinit") and sc.get("sequence", "adaptive") == "adaptive":
                    process.initialisation(product, max_step_epsilon=eps)
            phase.update(name="precompute", poisson_idx=0, precompute_paths=npaths)
            process.next_level(npaths, None, product, max_step_epsilon=eps)
        if kind == "coupling" and sc.get("sequence", "adaptive") == "adaptive":
            phase.update(name="precompute", poisson_idx=0, precompute_paths=npaths)
            process.pre_computation(npaths, product)
        elif kind == "coupling":
            wd.probes["c15.simulated_right_after_next_level"] += 1
        if sc.get("decoy") and eps is not None:
            phase["name"] = "decoy"
            decoy = B.build_process(sc["process"])
            dspec = dict(prod_spec, maturity=0.5 * T)
            dprod = B.build_product(dspec, decoy.model)
            decoy.initialisation(dprod, max_step_epsilon=4.0 * eps)
            decoy.pre_computation(1, dprod)
            if kind == "coupling":
                decoy.next_level(1, None, dprod, max_step_epsilon=4.0 * eps)
            wd.c15["decoy"] = decoy  # stays alive
            wd.probes["c15.second_simulator_prepared_in_between"] += 1
            phase["name"] = "setup"
    except HarnessError:
        raise
    except Exception as e:
        wd.script = None
        errors.append({"kind": type(e).__name__, "msg": "set-up: " + str(e)[:160]})
        wd.probes["c15.setup_raised"] += 1
        return {"violations": V, "errors": errors, "info": {}, "key": None, "nontrivial": False}

    # coefficients and grid as the objects report them
    if kind == "levy":
        sig_f, sig_c = float(process.model.diffusion_coefficient()), None
        grid = None
        times_grid = np.array(product.times_grid(), dtype=float)
    elif kind == "chain":
        sig_f, sig_c = float(process.equivalent_diffusion_coefficient), None
        grid = process.grid
        times_grid = np.array(product.times_grid(), dtype=float)
    else:
        sig_f = float(process.equivalent_diffusion_coefficient_fine)
        sig_c = float(process.equivalent_diffusion_coefficient_coarse)
        grid = process.grid
        times_grid = np.array(product.times_grid(), dtype=float)
    coupled = kind == "coupling" and sc["level"] >= 1
    cls = f"sim={kind}{'-coupled' if coupled else ''}|mode={mode}"
    nontrivial = False
    patterns = []

    def add(sig, detail):
        if not any(v["sig"] == sig for v in V):
            V.append({"sig": sig, "oracle": sig.split("|")[0], "detail": detail})

    for p in range(npaths):
        phase.update(name="path", poisson_idx=0, path=p)
        d0, c0, k0, s0 = len(wd.draws), len(wd.c15["chain"]), len(wd.c15["coarse"]), len(sizes)
        j0 = len(wd.c15.get("coarse_jumps", []))
        try:
            path = process.simulate_one_path_with_coupling() if coupled else process.simulate_one_path()
        except HarnessError:
            raise
        except Exception as e:
            errors.append({"kind": type(e).__name__, "msg": f"path {p}: " + str(e)[:160]})
            wd.probes["c15.path_raised"] += 1
            continue
        wd.probes["c15.path_checked"] += 1
        draws = wd.draws[d0:]
        _transport(add, path, cls)
        times = np.array(path.times(), dtype=float)
        diff = np.array(path.diffusion_path, dtype=float)
        jumps = np.array(path.jump_path, dtype=float)
        row = sc["counts"][p]
        patterns.append(tuple(min(x, 3) for x in row))
        if sum(row) == 0:
            wd.probes["c15.zero_jump_path"] += 1
        if max(row) >= 5:
            wd.probes["c15.burst"] += 1
        if max(row) >= 65536:
            wd.probes["c15.more_jumps_than_16_bits_in_one_interval"] += 1
        if sc["dates"] >= 3:
            wd.probes["c15.multi_date"] += 1
        if coupled:
            wd.probes["c15.coupled_path"] += 1
        if sum(row) > 0 or sc["dates"] >= 3:
            nontrivial = True
        # ---- sizes of the jumps in simulation order, per interval -----------------------------------
        if kind == "levy":
            flat = [x for chunk in sizes[s0:] for x in chunk]
            if len(flat) != sum(row):
                add(f"C15.counts|jump counts used by the path are not the pre-drawn / drawn Poisson counts|{cls}",
                    {"path": p, "jump_sizes_drawn": len(flat), "drawn_counts": [int(x) for x in row]})
                continue
            per_interval, pos = [], 0
            for n in row:
                per_interval.append(flat[pos:pos + n])
                pos += n
            coarse_slices = None
        else:
            recs = wd.c15["chain"][c0:]
            if len(recs) != 1:
                errors.append({"kind": "reference", "msg": f"{len(recs)} chain records for one path"})
                continue
            nbs, incs = recs[0]
            if nbs != list(row):
                add(f"C15.counts|jump counts used by the path are not the pre-drawn / drawn Poisson counts|{cls}",
                    {"path": p, "used": nbs, "drawn": row})
                continue
            origin = grid.origin_coordinate.value
            axis = np.asarray(grid.axes[0], dtype=float)
            per_interval = [[float(axis[origin + i]) for i in s] for s in incs]
            coarse_slices = None
            if coupled:
                # running sums of the per-jump coarse increments, interval by interval (independent of the library's own
                # accumulation in coupling_states_for_a_slice)
                cj = wd.c15.get("coarse_jumps", [])[j0:]
                if len(cj) != sum(nbs):
                    add(f"C15.counts|number of coupled coarse increments differs from the number of fine jumps|{cls}",
                        {"path": p, "coarse_increments": len(cj), "fine_jumps": int(sum(nbs))})
                    continue
                coarse_slices, pos_ = [], 0
                for n_ in nbs:
                    if n_ > 0:
                        coarse_slices.append(np.cumsum(cj[pos_:pos_ + n_]).tolist())
                        pos_ += n_
        # ---- structural clauses -------------------------------------------------------------------------
        fine_j = jumps[0] if coupled else jumps
        fine_d = diff[0] if coupled else diff
        if times.size == 0 or times[0] != 0.0 or np.any(np.take(jumps, 0, axis=-1) != 0.0) or np.any(np.take(diff, 0, axis=-1) != 0.0):
            add(f"C15.start|path does not start at value 0 at time 0|{cls}", {"path": p, "t0": float(times[0]) if times.size else None})
        if np.any(np.diff(times) <= 0) or not np.isclose(times[-1], T, rtol=0, atol=1e-12 * T):
            add(f"C15.times|times are not strictly increasing up to the maturity|{cls}",
                {"path": p, "times": times.tolist()[:12], "maturity": T})
            continue
        if fine_j.shape[-1] != times.size or fine_d.shape[-1] != times.size:
            add(f"C15.shape|path components are not aligned on the path times|{cls}",
                {"path": p, "n_times": int(times.size), "jump_shape": list(jumps.shape), "diff_shape": list(diff.shape)})
            continue
        # ---- reference ----------------------------------------------------------------------------------
        if mode == "fixed":
            exp_times = times_grid
            cum = np.cumsum([sum(x) for x in per_interval])
            exp_j = np.concatenate(([0.0], cum))
            if not _close(times, exp_times):
                add(f"C15.times|fixed-date path is not on the product dates|{cls}", {"path": p, "times": times.tolist()})
                continue
            if not _close(fine_j, exp_j, np.max(np.abs(exp_j))):
                per_int = np.concatenate(([0.0], [sum(x) for x in per_interval]))
                mech = "per-interval-sums-not-cumulated" if _close(fine_j, per_int, np.max(np.abs(per_int))) else "other"
                add(f"C15.jumps|jump component is not the running sum of all jump increments up to each date|{mech}|{cls}",
                    {"path": p, "got": fine_j.tolist(), "expected": exp_j.tolist(), "counts": row})
            # diffusion: the pre-drawn row consumed by this path
            bm = [d for d in wd.draws if d[0] == "np" and d[1] == "normal" and "pre_computation" in d[4] and d[8] is not None]
            used = [c for c in wd.consumed if c[0] == "bm"][-1:]  # last popped row
            w = None
            if bm and used:
                serial = used[0][1]
                for batch in wd.row_batches:
                    if batch[0] == "bm" and batch[1] <= serial < batch[1] + batch[2]:
                        # the batch's array is the normal draw recorded right before the batch was tagged
                        cand = [d for d in bm if np.asarray(d[8]).shape[0] == batch[2]]
                        if cand:
                            arr = np.asarray(cand[-1][8])
                            w = arr[serial - batch[1]].reshape(-1)
            if w is not None and w.size == nint:
                sq = np.sqrt(np.diff(times_grid))
                exp_d = np.concatenate(([0.0], np.cumsum(sq * sig_f * w)))
                if not _close(fine_d, exp_d, np.max(np.abs(exp_d))):
                    add(f"C15.diffusion|diffusion component is not the running sum of the scaled Brownian increments|{cls}",
                        {"path": p, "got": fine_d.tolist(), "expected": exp_d.tolist()})
                if coupled:
                    exp_dc = np.concatenate(([0.0], np.cumsum(sq * sig_c * w)))
                    if not _close(diff[1], exp_dc, np.max(np.abs(exp_dc))):
                        add(f"C15.diffusion|coarse diffusion component is not driven by the same Brownian increments|{cls}",
                            {"path": p, "got": diff[1].tolist(), "expected": exp_dc.tolist()})
            else:
                wd.probes["c15.bm_row_not_attributed"] += 1
            if coupled and coarse_slices is not None:
                tot, k2 = [], 0
                for n in row:
                    if n > 0:
                        tot.append(coarse_slices[k2][-1] if k2 < len(coarse_slices) and coarse_slices[k2] else 0.0)
                        k2 += 1
                    else:
                        tot.append(0.0)
                exp_c = np.concatenate(([0.0], np.cumsum(tot)))
                if not _close(jumps[1], exp_c, np.max(np.abs(exp_c))):
                    per_int = np.concatenate(([0.0], tot))
                    mech = "per-interval-sums-not-cumulated" if _close(jumps[1], per_int, np.max(np.abs(per_int))) else "other"
                    add(f"C15.jumps|coarse jump component is not the running sum of the coupled increments up to each date|{mech}|{cls}",
                        {"path": p, "got": jumps[1].tolist(), "expected": exp_c.tolist()})
        else:
            # jump-time / max-step modes: jumps drawn date interval by date interval, path on its own jump times
            us = [np.asarray(d[8], dtype=float) for d in draws if d[1] in ("random_sample", "random") and
                  "jump_times_from_nb_of_jumps" in d[4]]
            tg = np.asarray(times_grid, dtype=float)
            parts = []
            for kk in range(nint):
                u_k = us[kk] if kk < len(us) else np.zeros(0)
                parts.append(tg[kk] + np.sort((tg[kk + 1] - tg[kk]) * u_k))
            jt = np.concatenate(parts) if parts else np.zeros(0)
            if [int(x.size) for x in parts] != [int(x) for x in row]:
                add(f"C15.counts|jump counts used by the path are not the pre-drawn / drawn Poisson counts|{cls}",
                    {"path": p, "used": [int(x.size) for x in parts], "drawn": list(row)})
                continue
            if nint > 1 and sum(1 for x in row if x > 0) >= 2:
                wd.probes["c15.jumps_in_several_date_intervals_on_jump_times"] += 1
            sz = np.array([x for chunk in per_interval for x in chunk], dtype=float)
            if jt.size != sz.size:
                add(f"C15.counts|number of jump sizes differs from the number of jump times|{cls}",
                    {"path": p, "times": int(jt.size), "sizes": int(sz.size)})
                continue
            base_t = np.concatenate(([0.0], jt, [T]))
            cumj = np.cumsum(sz)
            base_j = np.concatenate(([0.0], cumj, [cumj[-1] if cumj.size else 0.0]))
            if coupled:
                cs = np.cumsum(np.array(cj, dtype=float)) if len(cj) else np.zeros(0)  # running sum across all the dates
                base_c = np.concatenate(([0.0], cs, [cs[-1] if cs.size else 0.0]))
            if mode == "jump" or (eps is not None and eps >= T):
                if not _close(times, base_t, T):
                    add(f"C15.times|path times are not 0, the sorted jump times and the maturity|{cls}",
                        {"path": p, "got": times.tolist()[:10], "expected": base_t.tolist()[:10]})
                    continue
                if not _close(fine_j, base_j, np.max(np.abs(base_j))):
                    add(f"C15.jumps|jump component is not the running sum of the jump sizes at the jump times|{cls}",
                        {"path": p, "got": fine_j.tolist()[:10], "expected": base_j.tolist()[:10]})
                if coupled and not _close(jumps[1], base_c, np.max(np.abs(base_c))):
                    add(f"C15.jumps|coarse jump component is not the running sum of the coupled states at the jump times|{cls}",
                        {"path": p, "got": jumps[1].tolist()[:10], "expected": base_c.tolist()[:10]})
            if mode == "maxstep":
                wd.probes["c15.maxstep_mode"] += 1
                gaps = np.diff(base_t)
                if np.any(gaps > eps):
                    wd.probes["c15.gap_gt_eps"] += 1
                if gaps[-1] > eps:
                    wd.probes["c15.tail_gap_gt_eps"] += 1
                steps = np.diff(times)
                big = np.flatnonzero(steps > eps * (1 + 1e-12))
                if big.size:
                    last_jump = jt[-1] if jt.size else 0.0
                    i = int(big[0])
                    if jt.size == 0:
                        where = "jump-free-path"
                    elif times[i] >= last_jump - 1e-15:
                        where = "gap-between-last-jump-and-maturity"
                    else:
                        where = "interior"
                    add(f"C15.maxstep|a step of the returned path exceeds the maximum step|{where}|{cls}",
                        {"path": p, "eps": eps, "step": float(steps[i]), "from": float(times[i]), "n_jumps": int(jt.size)})
                # original points kept, in order; inserted points repeat the predecessor's jump value
                idx = np.searchsorted(times, base_t)
                idx = np.clip(idx, 0, times.size - 1)
                # allow for rounding in the cumulated times
                ok_pts = True
                for bi, (t0, j0) in enumerate(zip(base_t, base_j)):
                    near = np.flatnonzero(np.abs(times - t0) <= 1e-9 * max(1.0, T))
                    if near.size == 0 or not any(abs(fine_j[q] - j0) <= 1e-11 * (1 + abs(j0)) for q in near):
                        ok_pts = False
                        add(f"C15.maxstep|an original jump time/value is missing from the refined path|{cls}",
                            {"path": p, "time": float(t0), "value": float(j0)})
                        break
                if ok_pts:
                    is_orig = np.array([np.any(np.abs(base_t - t) <= 1e-9 * max(1.0, T)) for t in times])
                    for q in range(1, times.size):
                        if not is_orig[q] and abs(fine_j[q] - fine_j[q - 1]) > 1e-11 * (1 + abs(fine_j[q - 1])):
                            add(f"C15.maxstep|an inserted point does not repeat the jump value of the preceding point|{cls}",
                                {"path": p, "index": q, "value": float(fine_j[q]), "previous": float(fine_j[q - 1])})
                            break
                        if coupled and not is_orig[q] and abs(jumps[1][q] - jumps[1][q - 1]) > 1e-11 * (1 + abs(jumps[1][q - 1])):
                            add(f"C15.maxstep|an inserted point does not repeat the coarse jump value of the preceding point|{cls}",
                                {"path": p, "index": q})
                            break
            # diffusion on the returned times
            ws = [np.asarray(d[8], dtype=float) for d in draws if d[1] == "normal" and "jump_increment" not in d[4]]
            if ws and ws[-1].size == times.size - 1:
                w = ws[-1].reshape(-1)
                sq = np.sqrt(np.diff(times))
                exp_d = np.concatenate(([0.0], np.cumsum(sq * sig_f * w)))
                if not _close(fine_d, exp_d, np.max(np.abs(exp_d))):
                    add(f"C15.diffusion|diffusion component is not the running sum of the scaled Brownian increments|{cls}",
                        {"path": p, "got": fine_d.tolist()[:8], "expected": exp_d.tolist()[:8]})
                if coupled:
                    exp_dc = np.concatenate(([0.0], np.cumsum(sq * sig_c * w)))
                    if not _close(diff[1], exp_dc, np.max(np.abs(exp_dc))):
                        add(f"C15.diffusion|coarse diffusion component is not driven by the same Brownian increments|{cls}",
                            {"path": p})
            else:
                add(f"C15.diffusion|number of Brownian increments differs from the number of steps of the path|{cls}",
                    {"path": p, "steps": int(times.size - 1), "normals": [int(x.size) for x in ws]})
    wd.script = None
    epsc = None if sc["eps"] is None else ("ge_T" if sc["eps"] >= T else ("small" if sc["eps"] < 0.05 * T else "mid"))
    key = hashlib.sha256(repr((kind, sc["level"], mode, sc["dates"], tuple(patterns), epsc)).encode()).hexdigest()[:16]
    return {"violations": V, "errors": errors, "info": {"paths": npaths}, "key": key, "nontrivial": nontrivial}


def summarise(sc, o):
    return {"scenario": {k: sc[k] for k in ("process", "mode", "maturity", "dates", "npaths", "counts", "eps", "level",
                                            "time_style")},
            "violations": [v["sig"] for v in o["violations"]], "errors": o.get("errors", [])[:2]}
