"""C02, several dimensions: the n-d samplers of a Levy-copula chain (adapted binary search tree, inversion over a
pairing enumeration) under the same operation histories as the 1-d samplers (scenarios.c02 delegates here when
``process.kind == "copula"``)."""
import copy
import hashlib
import itertools

import numpy as np

from simkit import simpool
from simkit.world import sub_rng, HarnessError

MARGINS = {
    "hem": ("HEM", {}),
    "hem_b": ("HEM", dict(sigma=0.1, p=0.4, eta1=15.0, eta2=30.0, intensity=2.0)),
    "cgmy02": ("CGMY", dict(c=0.5, g=15.0, m=20.0, y=0.2)),
    "vg": ("VG", {}),
}
# margins used only where a world asks for them by name (not drawn by generate_process: the other checks' streams stay put):
# strongly skewed infinite-variation margins, whose default grid has a long left and a short right half-axis
EXTRA_MARGINS = {
    "cgmy11_a": ("CGMY", dict(c=0.04945, g=3.0, m=15.0, y=1.1)),
    "cgmy11_b": ("CGMY", dict(c=0.04945, g=3.5, m=14.0, y=1.1)),
}
ND_METHODS = {"adaptednd": "BINARYSEARCHTREEADAPTED", "inversion": "INVERSION"}


def build_copula_process(spec):
    from rpylib.distribution.sampling import SamplingMethod
    from rpylib.grid.spatial import CTMCUniformGrid
    from rpylib.model.levymodel.levymodel import ModelType
    from rpylib.model.utils import create_exponential_of_levy_model, create_levy_copula_model, create_clayton_copula, \
        create_independent_copula
    from rpylib.process.markovchain.markovchainlevycopula import MarkovChainLevyCopula

    models = []
    for name in spec["margins"]:
        mt, kw = MARGINS[name] if name in MARGINS else EXTRA_MARGINS[name]
        models.append(create_exponential_of_levy_model(ModelType[mt])(**kw))
    cop = spec["copula"]
    copula = create_independent_copula() if cop["kind"] == "independent" else create_clayton_copula(theta=cop["theta"], eta=cop["eta"])
    lcm = create_levy_copula_model(models, copula)
    if spec["grid"].get("kind") == "credit":
        # the library's credit grid: one default threshold per name, so the axes DIFFER from each other when the thresholds do
        from rpylib.grid.spatial import CTMCCredit

        grid = CTMCCredit(h=spec["grid"]["h"], level_a=list(spec["grid"]["levels"]), model=lcm, symmetric_grid=True)
    elif spec["grid"].get("kind") == "trunc":
        # uniform grid truncated at a (crude) tail probability: asymmetric axes, possibly a single point on one side
        grid = CTMCUniformGrid(h=spec["grid"]["h"], model=lcm, truncation_probability=spec["grid"]["tp"])
    else:
        grid = CTMCUniformGrid.create_from_fixed_nb_of_points(h=spec["grid"]["h"], nb_of_points=spec["grid"]["n"],
                                                              dimension=len(models))
    return MarkovChainLevyCopula(lcm, grid, SamplingMethod[ND_METHODS[spec["method"]]])


def generate_process(r):
    d = r.choice([2, 2, 2, 3])
    return {"kind": "copula", "margins": [r.choice(list(MARGINS)) for _ in range(d)],
            "copula": r.choice([{"kind": "clayton", "theta": r.choice([0.7, 2.0, 0.3]), "eta": r.choice([0.3, 0.8, 0.0, 1.0])},
                                {"kind": "clayton", "theta": 0.7, "eta": 0.3}, {"kind": "independent"}]),
            "grid": ({"kind": "trunc", "h": r.choice([0.1, 0.05]), "tp": r.choice([0.9, 0.9, 0.99])} if d == 2 and r.random() < 0.4
                     else {"kind": "fixed", "h": r.choice([0.1, 0.05]), "n": r.choice([4, 4, 6]) if d == 2 else 4}),
            "method": r.choice(["adaptednd", "adaptednd", "inversion"])}


def credit_grid(proc, r):
    """C02 only: now and then the credit grid with unequal thresholds (axes that differ from each other)"""
    if r.random() < 0.15:
        d = len(proc["margins"])
        proc["grid"] = {"kind": "credit", "h": r.choice([0.01, 0.02]), "levels": r.sample([-0.05, -0.08, -0.1, -0.15], d)}
    return proc


def enlarge(proc, r):
    """C02 only: now and then a LARGE grid for the inversion sampler (its state enumeration walks the shells of the
    pairing function far beyond the first few: 19 points per axis in 3 dimensions = 6858 states, 41 in 2 dimensions)"""
    if proc["method"] == "inversion" and proc["grid"]["kind"] == "fixed" and r.random() < 0.25:
        proc["grid"]["n"] = 19 if len(proc["margins"]) == 3 else r.choice([19, 41])
    return proc


def execute(wd, sc):
    V, errors = [], []
    spec = sc["process"]
    method = spec["method"]
    cls = f"method={method}|dim={len(spec['margins'])}"
    try:
        process = build_copula_process(spec)
    except HarnessError:
        raise
    except Exception as e:
        wd.probes[f"c02.construction_raised.{method}"] += 1
        return {"violations": [], "errors": [{"kind": type(e).__name__, "msg": "construction: " + str(e)[:120]}],
                "info": {}, "key": None, "nontrivial": False}
    grid = process.grid
    dim = len(grid.axes)
    origin = tuple(int(c) for c in grid.origin_coordinate)
    sizes = [len(a) for a in grid.axes]
    mass = process.model.mass
    lam = float(process.intensity_of_jumps)
    # ---- target law: mass of the cell of every non-origin grid state / intensity -------------------------
    p = {}
    for pos in itertools.product(*[range(n) for n in sizes]):
        if pos == origin:
            continue
        lo, hi = [], []
        for k, c in enumerate(pos):
            ax = grid.axes[k]
            lo.append(ax[0] if c == 0 else 0.5 * (ax[c - 1] + ax[c]))
            hi.append(ax[-1] if c == sizes[k] - 1 else 0.5 * (ax[c] + ax[c + 1]))
        m_ = float(mass(a=tuple(lo), b=tuple(hi)))
        p[tuple(c - o for c, o in zip(pos, origin))] = max(m_, 0.0) / lam
    total_p = sum(p.values())
    K = len(p)
    if abs(total_p - 1.0) > 1e-6:
        wd.probes["c02.nd_cells_do_not_sum_to_intensity"] += 1
        return {"violations": [], "errors": [{"kind": "precondition", "msg": f"cell masses sum to {total_p} x intensity (C01/C12)"}],
                "info": {}, "key": None, "nontrivial": False}
    ur = sub_rng(sc["useed"], "c02.uniforms")
    cum = np.cumsum(sorted(p.values(), reverse=True))
    pool = [0.0, 1.0 - 2.0 ** -53, 2.0 ** -40, 0.5] + [ur.random() for _ in range(6)]
    for _ in range(4):
        c = float(cum[ur.randrange(len(cum))])
        pool.append(min(1.0 - 2.0 ** -53, max(0.0, c + ur.choice([-1e-12, 1e-12, 1e-7]))))
    feed = {"us": None}

    def script(wd_, ctx, fname, cons, a, k, val):
        if feed["us"] is None:
            return val
        if fname == "np.uniform" and "Uniform.sample" in cons:
            n = int(np.asarray(val).size)
            us = feed["us"][:n]
            feed["us"] = feed["us"][n:]
            if len(us) != n:
                raise HarnessError("uniform feed exhausted")
            hi = float(k.get("high", 1.0))
            wd_.faults["rng.scripted_uniform"] += n
            return np.array(us, dtype=float) * hi
        return val

    wd.script = script

    def add(sig, detail):
        if not any(v["sig"] == sig for v in V):
            V.append({"sig": sig, "oracle": sig.split("|")[0], "detail": detail})

    def ucls(u):
        if u == 0.0:
            return "u=0-exactly"
        if u >= min(total_p, 1.0) * (1 - 4e-16):
            return "u-at-or-beyond-the-rounded-total-probability"
        return "u-interior"

    def check_state(st, u, where):
        st = tuple(int(x) for x in st)
        if len(st) != dim:
            add(f"C02.V|sampler returned a state of the wrong dimension|{cls}", {"state": list(st), "where": where})
            return st
        pos = tuple(o + s for o, s in zip(origin, st))
        if all(s == 0 for s in st):
            add(f"C02.V|sampler returned the origin|{ucls(u)}|{cls}", {"u": u, "where": where})
        elif any(c < 0 or c >= n for c, n in zip(pos, sizes)):
            add(f"C02.V|sampler returned a state outside the grid|{ucls(u)}|{cls}", {"u": u, "state": list(st), "where": where})
        elif p.get(st, 0.0) <= 0.0:
            add(f"C02.V|sampler returned a state of probability zero|{ucls(u)}|{cls}", {"u": u, "state": list(st), "where": where})
        return st

    def do_sample(sampler, us, where):
        feed["us"] = list(us)
        d0 = len(wd.draws)
        try:
            res = sampler.sample(size=len(us))
        finally:
            left = feed["us"]
            feed["us"] = None
        res = [tuple(int(x) for x in st) for st in res]
        extra = [d for d in wd.draws[d0:] if not ("Uniform.sample" in d[4] and d[1] == "uniform")]
        if extra:
            ucs = {ucls(u) for u in us}
            uc = "u-at-or-beyond-the-rounded-total-probability" if "u-at-or-beyond-the-rounded-total-probability" in ucs else "u-interior"
            add(f"C02.X|sampler consumed a random variate other than the uniforms it was handed|{extra[0][1]}@{extra[0][4].split(':')[-1]}|{uc}|{cls}",
                {"where": where, "draw": list(extra[0][:6])})
        if left:
            add(f"C02.X|sampler did not consume the uniforms it was handed|{cls}", {"where": where, "left": len(left)})
        if len(res) != len(us):
            add(f"C02.X|batch sample returned a different number of states than requested|{cls}",
                {"requested": len(us), "returned": len(res)})
        return res

    samplers, lineage = [process.sampling], ["original"]
    if sc.get("small_cache") is not None and hasattr(samplers[0], "_max_storage"):
        samplers[0]._max_storage = sc["small_cache"]
        wd.faults["knob.small_cache"] += 1
    table, kinds = {}, []
    snap_then_repeat = False
    try:
        for oi, op in enumerate(sc["ops"]):
            kind = op[0]
            kinds.append(kind[0])
            if kind in ("draw", "batch"):
                ci = op[1] % len(samplers)
                idxs = [op[2]] if kind == "draw" else op[2]
                us = [pool[i % len(pool)] for i in idxs]
                res = do_sample(samplers[ci], us, f"op {oi} {kind} on copy {ci} ({lineage[ci]})")
                for u, st in zip(us, res):
                    st = check_state(st, u, f"op {oi}")
                    if u in table:
                        if lineage[ci] != "original":
                            snap_then_repeat = True
                            wd.probes["c02.nd_repeat_after_copy"] += 1
                        if table[u][0] != st:
                            add(f"C02.H|same uniform gave a different state after another history|{ucls(u)}|{cls}",
                                {"u": u, "first": list(table[u][0]), "now": list(st), "op": oi, "lineage": lineage[ci]})
                    else:
                        table[u] = (st, ci)
            elif kind == "reset_cost":
                ci = op[1] % len(samplers)
                if hasattr(samplers[ci], "reset_sampling_cost"):
                    samplers[ci].reset_sampling_cost()
                    wd.probes["c02.cost_reset_between_draws"] += 1
                    wd.faults["history.cost_reset"] += 1
            elif kind == "pickle":
                ci = op[1] % len(samplers)
                samplers.append(simpool._loads(simpool._dumps(samplers[ci])))
                lineage.append("pickle<" + lineage[ci])
                wd.faults["snapshot.restore.pickle"] += 1
            elif kind == "deepcopy":
                ci = op[1] % len(samplers)
                samplers.append(copy.deepcopy(samplers[ci]))
                lineage.append("deepcopy<" + lineage[ci])
                wd.faults["snapshot.restore.deepcopy"] += 1
            elif kind == "fresh":
                u = pool[op[1] % len(pool)]
                fresh = build_copula_process(spec).sampling
                st = check_state(do_sample(fresh, [u], f"op {oi} fresh sampler")[0], u, f"op {oi} fresh")
                if u in table and table[u][0] != st:
                    add(f"C02.H|a newly constructed sampler gives another state for the same uniform|{ucls(u)}|{cls}",
                        {"u": u, "used_sampler": list(table[u][0]), "fresh_sampler": list(st), "op": oi})
                elif u not in table:
                    table[u] = (st, -1)
        wd.probes["c02.nd_ops_done"] += 1
    except HarnessError:
        wd.script = None
        raise
    except Exception as e:
        errors.append({"kind": type(e).__name__, "msg": f"op {len(kinds)}: " + str(e)[:140]})
        wd.probes[f"c02.sampling_raised.{method}"] += 1
    M = min(int(sc["sweep"]), 1 << 14)
    if not errors and M > 0:
        try:
            fresh = build_copula_process(spec).sampling
            counts = {}
            for start in range(0, M, 4096):
                n = min(4096, M - start)
                us = ((np.arange(start, start + n) + 0.5) / M).tolist()
                for st in do_sample(fresh, us, "lattice sweep"):
                    counts[st] = counts.get(st, 0) + 1
            wd.probes["c02.nd_sweep_done"] += 1
            # inversion: the uniforms sent to a state form ONE interval, so a midpoint lattice of M points hits it
            # floor or ceil of p*M times (one more point of slack for the rounding of the cumulated sums); the tree
            # consumes several uniforms per state: its one-uniform lattice is decided to 2(K+1)/M only
            tol = (3.0 / M if method == "inversion" else 2.0 * (K + 1) / M) + 1e-12
            if method == "inversion" and K > 1000:
                wd.probes["c02.nd_large_grid_sweep"] += 1
            worst, werr = None, 0.0
            for st in set(p) | set(counts):
                e = abs(counts.get(st, 0) / M - p.get(st, 0.0))
                if e > werr:
                    worst, werr = st, e
            for st in counts:
                check_state(st, 0.5, "lattice sweep")
            if werr > tol:
                add(f"C02.law|state frequency over the uniform lattice differs from the target probability|{cls}",
                    {"state": list(worst), "frequency": counts.get(worst, 0) / M, "probability": p.get(worst, 0.0),
                     "tolerance": tol, "M": M, "K": K})
        except HarnessError:
            wd.script = None
            raise
        except Exception as e:
            errors.append({"kind": type(e).__name__, "msg": "sweep: " + str(e)[:140]})
            wd.probes[f"c02.sampling_raised.{method}"] += 1
    wd.script = None
    key = hashlib.sha256(repr((spec, "".join(kinds))).encode()).hexdigest()[:16]
    return {"violations": V, "errors": errors, "info": {"K": K, "ops": len(kinds), "copies": len(samplers), "dim": dim},
            "key": key, "nontrivial": snap_then_repeat}
